#!/usr/bin/env python3
"""Regenerates the seeded-changes table in DESIGN.md from seeded/*/meta.json."""
import glob, json, os, re
V = os.path.dirname(os.path.dirname(os.path.abspath(__file__)))
rows = []
for f in sorted(glob.glob(os.path.join(V, "seeded", "*", "meta.json"))):
    m = json.load(open(f))
    need = " ".join(m.get("needs_to_manifest", "").split())
    # first sentence-ish of the notes
    need = re.sub(r"^#+\s*\S+.*?(?=\b[A-Z][a-z])", "", need)[:230]
    res = m["checks_run"]["results"]
    caught = [p for p in sorted(res) if res[p]["exit"] == 1]
    broken = [p for p in sorted(res) if res[p]["exit"] not in (0, 1)]
    rows.append((m["id"], m["breaks_property"], "yes" if m["breaks_property"] in caught else "**NO**",
                 ", ".join(caught) or "—", ", ".join(broken) or "", m["checks_run"]["tier"]))
lines = ["| seeded change | breaks | caught by its own check | all checks that alarm | tier |", "|---|---|---|---|---|"]
for r in rows:
    lines.append("| `%s` | %s | %s | %s%s | %s |" % (r[0], r[1], r[2], r[3], (" (machinery exit: %s)" % r[4]) if r[4] else "", r[5]))
n = len(rows)
hit = sum(1 for r in rows if r[2] == "yes")
lines.append("")
lines.append("%d seeded changes filed; %d caught by the check of the property they were written against." % (n, hit))
p = os.path.join(V, "DESIGN.md")
s = open(p).read()
s = re.sub(r"<!-- MUTANTS-TABLE-BEGIN -->.*<!-- MUTANTS-TABLE-END -->",
           "<!-- MUTANTS-TABLE-BEGIN -->\n" + "\n".join(lines) + "\n<!-- MUTANTS-TABLE-END -->", s, flags=re.S)
open(p, "w").write(s)
print("\n".join(lines))
