#!/usr/bin/env python3
"""Folds the result of tools/rerun_seeded.sh (seeded/.rerun.tsv) into seeded/<id>/meta.json, so that
tools/mutants_table.py shows what the *current* checks report for each seeded change."""
import csv, json, os, sys, time
V = os.path.dirname(os.path.dirname(os.path.abspath(__file__)))
rows = {}
for r in csv.reader(open(os.path.join(V, "seeded", ".rerun.tsv")), delimiter="\t"):
    if len(r) < 4 or r[2] == "-":
        continue
    rows.setdefault(r[0], {})[r[2]] = dict(exit=int(r[3]), violations=1 if r[3] == "1" else 0, first=(r[4] if len(r) > 4 else "").strip())
for sid, res in sorted(rows.items()):
    f = os.path.join(V, "seeded", sid, "meta.json")
    m = json.load(open(f))
    old = m["checks_run"]["results"]
    if len(res) >= len(old):
        m["checks_run"]["results"] = res
    else:
        old.update(res)
    res = m["checks_run"]["results"]
    m["checks_run"].setdefault("how", "tools/rerun_seeded.sh")
    m["checks_run"]["rerun_at"] = time.strftime("%Y-%m-%d")
    m["caught_by"] = [p for p in sorted(res) if res[p]["exit"] == 1]
    m["caught_by_target_property"] = m["breaks_property"] in m["caught_by"]
    json.dump(m, open(f, "w"), indent=1)
    print(sid, m["breaks_property"], "caught" if m["caught_by_target_property"] else "MISSED", ",".join(m["caught_by"]))
