#!/bin/bash
# usage: confirm_mutant.sh <worktree> <letter>   -- confirms: suite passes with the change, demo fails with / passes without
set -u
WT=$1; L=$2; FLAGS=${3:-}; TC=${4:-}
cd "$WT" || exit 2
git checkout -q -- . ; rm -f tests/demo_*.rs
export CARGO_NET_OFFLINE=true
git apply "mutant_$L.diff" || { echo "APPLY FAILED"; exit 2; }
echo "== suite with mutant"
cargo test --offline --workspace --no-fail-fast 2>&1 | grep -E "^test result|FAILED|error(\[|:)" | sort | uniq -c
cp "demo_$L.rs" "tests/demo_$L.rs"
echo "== demo with mutant (must FAIL)"
cargo $TC test --offline $FLAGS --test "demo_$L" 2>&1 | grep -E "^test result|error(\[|:)" 
git checkout -q -- .
echo "== demo without mutant (must PASS)"
cargo $TC test --offline $FLAGS --test "demo_$L" 2>&1 | grep -E "^test result|error(\[|:)"
rm -f "tests/demo_$L.rs"
git status --short | grep -v "^??" 
