#!/bin/bash
# usage: try_in_ns.sh <name> <patch.diff> <tier> <prop>...   -- like try_mutant.sh, but on scratch copies of /repo and
# /verif inside a private mount namespace, so several can run in parallel and the real trees are untouched.
set -u
NAME=$1; P=$2; TIER=$3; shift 3
S=/tmp/ns-$NAME
rm -rf $S; mkdir -p $S
rsync -a --exclude target /repo/ $S/repo/
rsync -a --exclude replays /verif/ $S/verif/
unshare -m bash -c "
  mount --bind $S/repo /repo && mount --bind $S/verif /verif || exit 2
  /verif/tools/try_mutant.sh $P $TIER $*
" > /tmp/ns-$NAME.out 2>&1
rm -rf $S
echo "done" >> /tmp/ns-$NAME.out
