#!/bin/bash
# Runs the registered checks (or those in PROPS) against every property-preserving refactoring under
# /verif/refactors/<id>/patch.diff, each lane on scratch copies of /repo and /verif in a private mount namespace.
# Expected: exit 0 everywhere.  usage: rerun_refactors.sh [-j lanes] [-t tier] [id ...]
# result: /verif/refactors/.rerun.tsv  (id, check, exit code, first line after VIOLATION)
set -u
LANES=5; TIER=quick
while getopts "j:t:" o; do case $o in j) LANES=$OPTARG;; t) TIER=$OPTARG;; esac; done
shift $((OPTIND-1))
cd /verif/refactors
IDS=("$@"); [ ${#IDS[@]} -eq 0 ] && IDS=($(ls -d */ | tr -d / | sort))
ALL=$(python3 -c "import json; print(' '.join(c['property_id'] for c in json.load(open('/verif/MANIFEST.json'))['checks']))")
OUT=/verif/refactors/.rerun.tsv; : > $OUT
lane() {
  L=$1; shift
  S=/tmp/rr-$L; rm -rf $S; mkdir -p $S
  rsync -a --exclude target /repo/ $S/repo/
  rsync -a --exclude replays /verif/ $S/verif/
  unshare -m bash -c "
    mount --bind $S/repo /repo && mount --bind $S/verif /verif || exit 2
    cd /verif
    for id in $*; do
      git -C /repo apply /verif/refactors/\$id/patch.diff || { echo \"\$id	-	apply-failed	\"; continue; }
      for p in \${PROPS:-$ALL}; do
        o=\$(./check \$p $TIER 2>&1); rc=\$?
        first=\$(echo \"\$o\" | grep -A1 '^VIOLATION\|^MACHINERY' | sed -n 2p | cut -c1-300)
        echo \"\$id	\$p	\$rc	\$first\"
      done
      git -C /repo checkout -- .
    done
  " > $S/out.tsv 2> $S/err.txt
  cat $S/out.tsv >> $OUT
  rm -rf $S
}
n=${#IDS[@]}; per=$(( (n + LANES - 1) / LANES ))
for ((l=0; l<LANES; l++)); do
  chunk=("${IDS[@]:$((l*per)):$per}")
  [ ${#chunk[@]} -gt 0 ] && lane $l "${chunk[@]}" &
done
wait
sort -o $OUT $OUT
awk -F'\t' '{t++; if($3==0)c++} END{printf "%d (refactoring, check) runs; %d clean (exit 0)\n", t, c}' $OUT
awk -F'\t' '$3!=0{print "ALARM/ERROR: "$0}' $OUT
