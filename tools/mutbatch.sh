#!/bin/bash
# Runs seed.py for a list of mutants inside a private mount namespace where /repo and /verif are scratch copies,
# so the real /repo and /verif are never touched while the batch runs.  Results are copied back to /verif/seeded/.
# usage: mutbatch.sh <name> <tier> "<wt> <letter> <id> <prop>" ...
set -u
NAME=$1; TIER=$2; shift 2
S=/tmp/mut-$NAME
rm -rf $S; mkdir -p $S
rsync -a --exclude target /repo/ $S/repo/
rsync -a --exclude replays /verif/ $S/verif/
LIST=$S/list.txt; : > $LIST
for spec in "$@"; do echo "$spec" >> $LIST; done
unshare -m bash -c "
  mount --bind $S/repo /repo && mount --bind $S/verif /verif || exit 2
  cd /verif
  while IFS='|' read wt letter id prop flags tc props; do
    echo \"=== \$id (\$prop) from \$wt/mutant_\$letter.diff\"
    if [ -n \"\$props\" ]; then
      python3 /verif/tools/seed.py \$wt \$letter \$id \$prop $TIER --demo-flags \"\$flags\" --demo-toolchain \"\$tc\" --props \"\$props\" 2>&1 | grep -v '^\$'
    else
      python3 /verif/tools/seed.py \$wt \$letter \$id \$prop $TIER --demo-flags \"\$flags\" --demo-toolchain \"\$tc\" 2>&1 | grep -v '^\$'
    fi
  done < $LIST
" > $S/log.txt 2>&1
mkdir -p /verif/seeded
# copy back only what this batch produced
while IFS='|' read wt letter id rest; do
  [ -d "$S/verif/seeded/$id" ] && rsync -a "$S/verif/seeded/$id/" "/verif/seeded/$id/"
done < $LIST
cp $S/log.txt /verif/seeded/.last-batch-$NAME.log
rm -rf $S
echo "batch $NAME done"
