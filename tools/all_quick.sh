#!/bin/bash
# runs every registered quick check on the current tree; prints one line per check; exit 1 if any is not clean
cd /verif; rc=0
for p in $(python3 -c "import json; print(' '.join(c['property_id'] for c in json.load(open('MANIFEST.json'))['checks']))"); do
  out=$(./check $p ${1:-quick} 2>&1); st=$?
  echo "[$p] exit=$st $(echo "$out" | tail -1 | cut -c1-140)"
  [ $st -ne 0 ] && { rc=1; echo "$out" | grep -A1 "^VIOLATION\|MACHINERY" | head -6; }
done
exit $rc
