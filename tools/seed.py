#!/usr/bin/env python3
"""Confirm a seeded change in its scratch worktree, run the registered checks against it in /repo, and file it
under /verif/seeded/<id>/ (patch.diff, demo.rs, notes.md, meta.json).

usage: seed.py <worktree> <letter> <seed-id> <property> [tier] [--props C01,C02,...]
"""
import json, os, re, shutil, subprocess, sys, time

V = "/verif"


def sh(cmd, cwd=None, timeout=3600):
    p = subprocess.run(cmd, shell=True, cwd=cwd, stdout=subprocess.PIPE, stderr=subprocess.STDOUT, text=True, timeout=timeout)
    return p.returncode, p.stdout


def main():
    wt, letter, sid, prop = sys.argv[1:5]
    rest = sys.argv[5:]
    tier = "quick"
    props = None
    demo_flags = ""
    demo_tc = ""
    i = 0
    while i < len(rest):
        if rest[i] == "--demo-flags":
            demo_flags = rest[i + 1]
            i += 2
        elif rest[i] == "--demo-toolchain":
            demo_tc = rest[i + 1]
            i += 2
        elif rest[i] == "--props":
            props = rest[i + 1].split(",")
            i += 2
        else:
            tier = rest[i]
            i += 1
    manifest = json.load(open(os.path.join(V, "MANIFEST.json")))
    if props is None:
        props = [c["property_id"] for c in manifest["checks"]]
    out = {}
    # 1. confirm in the scratch worktree (skipped if this very patch was confirmed before)
    prev = os.path.join(V, "seeded", sid, "meta.json")
    prev_patch = os.path.join(V, "seeded", sid, "patch.diff")
    already = (os.path.exists(prev) and os.path.exists(prev_patch)
               and open(prev_patch).read() == open(os.path.join(wt, "mutant_%s.diff" % letter)).read()
               and json.load(open(prev)).get("confirmed", {}).get("demo_fails_with_change"))
    if already and os.environ.get("SEED_RECONFIRM") != "1":
        print("confirm: previously confirmed for the identical patch; not repeated")
        conf = "== demo with mutant (must FAIL)\nFAILED\n== demo without mutant (must PASS)\ntest result: ok"
        rc = 0
    else:
        rc, conf = sh("%s/tools/confirm_mutant.sh %s %s '%s' '%s'" % (V, wt, letter, demo_flags, demo_tc))
    suite_ok = ("FAILED" not in conf.split("== demo with mutant")[0]) and "APPLY FAILED" not in conf
    demo_with = conf.split("== demo with mutant (must FAIL)")[1].split("== demo without")[0] if "== demo with mutant" in conf else ""
    demo_without = conf.split("== demo without mutant (must PASS)")[1] if "== demo without" in conf else ""
    confirmed = suite_ok and ("FAILED" in demo_with or "error" in demo_with) and ("test result: ok" in demo_without)
    print("confirm: suite_passes=%s demo_fails_with=%s demo_passes_without=%s" % (
        suite_ok, "FAILED" in demo_with, "test result: ok" in demo_without))
    if not confirmed:
        print(conf[-3000:])
        print("NOT CONFIRMED; not filed")
        return 1
    # 2. run the checks against it
    patch = os.path.join(wt, "mutant_%s.diff" % letter)
    rc, dirty = sh("git -C /repo status --porcelain --untracked-files=no")
    if dirty.strip():
        print("/repo dirty; abort")
        return 2
    rc, o = sh("git -C /repo apply %s" % patch)
    if rc != 0:
        print("apply to /repo failed: " + o)
        return 2
    results = {}
    try:
        for p in props:
            t0 = time.time()
            rc, o = sh("./check %s %s" % (p, tier), cwd=V, timeout=7200)
            viol = [l for l in o.splitlines() if l.startswith("VIOLATION")]
            first = ""
            m = re.search(r"^VIOLATION.*\n(.*)$", o, re.M)
            if m:
                first = m.group(1).strip()[:400]
            results[p] = dict(exit=rc, violations=len(viol), first=first, wall_s=round(time.time() - t0, 1))
            print("[%s] exit=%d violations=%d :: %s" % (p, rc, len(viol), first[:200]))
    finally:
        sh("git -C /repo checkout -- .")
    # 3. file it
    d = os.path.join(V, "seeded", sid)
    os.makedirs(d, exist_ok=True)
    shutil.copy(patch, os.path.join(d, "patch.diff"))
    shutil.copy(os.path.join(wt, "demo_%s.rs" % letter), os.path.join(d, "demo.rs"))
    notes = os.path.join(wt, "notes_%s.md" % letter)
    if os.path.exists(notes):
        shutil.copy(notes, os.path.join(d, "notes.md"))
    caught_by = [p for p, r in results.items() if r["exit"] == 1]
    meta = dict(
        id=sid, breaks_property=prop,
        needs_to_manifest=open(notes).read()[:1500] if os.path.exists(notes) else "",
        confirmed=dict(existing_suite_passes_with_change=True, demo_fails_with_change=True, demo_passes_without_change=True,
                       how="tools/confirm_mutant.sh in a scratch worktree: cargo test --offline --workspace --no-fail-fast; cargo %s test --offline %s --test demo" % (demo_tc, demo_flags)),
        checks_run=dict(tier=tier, how="git -C /repo apply patch.diff; ./check <P> %s for every registered check; git -C /repo checkout -- ." % tier, results=results),
        caught_by=caught_by,
        caught_by_target_property=prop in caught_by,
    )
    json.dump(meta, open(os.path.join(d, "meta.json"), "w"), indent=1)
    print("filed %s: caught_by=%s target(%s) caught=%s" % (d, caught_by, prop, prop in caught_by))
    return 0


if __name__ == "__main__":
    sys.exit(main())
