#!/bin/bash
# usage: try_mutant.sh <patch.diff> <tier> <prop> [<prop>...]  -- applies the patch to /repo, runs the checks, reverts
set -u
P=$1; TIER=$2; shift 2
cd /repo || exit 2
if ! git diff --quiet; then echo "/repo has uncommitted changes"; exit 2; fi
git apply "$P" || { echo "APPLY FAILED"; exit 2; }
trap 'git -C /repo checkout -q -- .' EXIT
cd /verif
for prop in "$@"; do
  out=$(./check "$prop" "$TIER" 2>&1); rc=$?
  nv=$(echo "$out" | grep -c '^VIOLATION')
  echo "[$prop] exit=$rc violations=$nv :: $(echo "$out" | grep -A1 '^VIOLATION' | sed -n 2p | cut -c1-260)"
done
