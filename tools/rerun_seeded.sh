#!/bin/bash
# Re-runs the check of the target property (or the checks given in PROPS) against every seeded change, using only
# what is committed under /verif/seeded/<id>/ (patch.diff + meta.json).  Each lane works on scratch copies of
# /repo and /verif inside a private mount namespace, so the real trees are never touched and lanes run in parallel.
# usage: rerun_seeded.sh [-j lanes] [-t tier] [id ...]        (default: all ids, 4 lanes, quick)
#        PROPS="C01 C02" rerun_seeded.sh ...                  (run these checks instead of the target's)
#        SLOW_ONLY_FOR_TARGET="C16 C17 C18" ...                (of PROPS, run these only against changes written for them)
# result: /verif/seeded/.rerun.tsv  (id, target property, check, exit code, first line after VIOLATION)
set -u
LANES=4; TIER=quick
while getopts "j:t:" o; do case $o in j) LANES=$OPTARG;; t) TIER=$OPTARG;; esac; done
shift $((OPTIND-1))
cd /verif/seeded
IDS=("$@"); [ ${#IDS[@]} -eq 0 ] && IDS=($(ls -d */ | tr -d / | sort))
OUT=/verif/seeded/.rerun.tsv; [ -n "${APPEND:-}" ] || : > $OUT
lane() {
  L=$1; shift
  S=/tmp/rs-$L; rm -rf $S; mkdir -p $S
  rsync -a --exclude target /repo/ $S/repo/
  rsync -a --exclude replays /verif/ $S/verif/
  unshare -m bash -c "
    mount --bind $S/repo /repo && mount --bind $S/verif /verif || exit 2
    cd /verif
    for id in $*; do
      prop=\$(jq -r .breaks_property seeded/\$id/meta.json)
      git -C /repo apply /verif/seeded/\$id/patch.diff || { echo \"\$id	\$prop	-	apply-failed	\"; continue; }
      for p in \${PROPS:-\$prop}; do
        # SLOW_ONLY_FOR_TARGET: checks that need three builds each are run only against changes written for them
        case \" \${SLOW_ONLY_FOR_TARGET:-} \" in *\" \$p \"*) [ \$p = \$prop ] || { [ \$p = C16 ] && [ \$prop = C14 ]; } || continue;; esac
        o=\$(./check \$p $TIER 2>&1); rc=\$?
        first=\$(echo \"\$o\" | grep -A1 '^VIOLATION' | sed -n 2p | cut -c1-200)
        echo \"\$id	\$prop	\$p	\$rc	\$first\"
      done
      git -C /repo checkout -- .
    done
  " > $S/out.tsv 2> $S/err.txt
  cat $S/out.tsv >> $OUT
  rm -rf $S
}
n=${#IDS[@]}; per=$(( (n + LANES - 1) / LANES ))
for ((l=0; l<LANES; l++)); do
  chunk=("${IDS[@]:$((l*per)):$per}")
  [ ${#chunk[@]} -gt 0 ] && lane $l "${chunk[@]}" &
done
wait
sort -o $OUT $OUT
awk -F'\t' '$2==$3{t++; if($4==1)c++} END{printf "%d seeded changes re-run against their target check; %d reported (exit 1)\n", t, c}' $OUT
awk -F'\t' '$2==$3 && $4!=1{print "MISSED/ERROR: "$0}' $OUT
