#!/usr/bin/env python3
"""Regenerates MANIFEST.json from the table below (kept in one place so it stays valid)."""
import json, os
V = os.path.dirname(os.path.abspath(__file__))

TRUST = ("Runs in two element configurations where applicable (tracked element with Drop; `plain` element without drop glue). Trusted: rustc/cargo as installed, catch_unwind, the harness's Vec-based reference model and element ledger, "
         "the calibration of the slot array (self-checked). Small-scope hypothesis beyond the listed capacities.")

CHECKS = {
 "C01": ("model_checking", "explicit-state BFS of the real code to a fixpoint vs. reference model",
         "Every (reachable memory-image state, mutator, argument) triple for capacities 0..=5 (quick) / 0..=8 (thorough) is executed on a freshly rebuilt real buffer and its return value and resulting contents (len/is_empty/is_full/iter/get/as_slices) compared with a Vec-based deque model; the search runs to a fixpoint, so by induction all finite histories over the alphabet are covered for those capacities. Extension capacities 16/33 (all layouts) and 260 (boundary grid of layouts x boundary-value alphabet, not a fixpoint); iterator arguments with every size_hint shape incl. incorrect ones (contents then unspecified).", "§4 C01"),
 "C02": ("model_checking", "explicit-state BFS; identity oracle on push/try_push",
         "All layouts x {push_back, push_front, try_push_back, try_push_front} for capacities 0..=5/0..=8 with identity-carrying elements: the returned element is the displaced/own element, Err iff full, memory image unchanged on Err, nothing destroyed inside the call.", "§4 C02"),
 "C03": ("model_checking", "explicit-state BFS + exhaustive consumption scripts; element-ledger oracle",
         "Same exploration as C01 with a per-element ledger: after every transition the live set equals buffer contents + harness-held elements, no double/garbage drop, and the final drop from every reachable state closes the ledger; all drain and into_iter scripts over {next,next_back} are enumerated.", "§4 C03"),
 "C11": ("model_checking", "explicit-state BFS; panic-iff-documented oracle over full argument domains",
         "Every operation x every argument in the boundary-complete domains (indexes 0..=N+1 and usize::MAX, all 9 RangeBounds shapes) from every reachable state incl. capacity 0: panics iff documented, buffer image and ledger unchanged after a documented panic, watchdog on every call.", "§4 C11"),
 "C12": ("model_checking", "exhaustive enumeration of constructors/conversions over source lengths and layouts",
         "new/default/boxed empty; From<[T;M]> and from_iter for every M in 0..=2N+1 keep the last N and destroy the rest exactly once; clone/to_vec/clone_from from every layout to every layout produce element-wise clones, source image untouched, ownership independent in both drop orders; into_iter().collect returns the original elements.", "§4 C12"),
 "C13": ("model_checking", "exhaustive enumeration of all pairs of (capacity, layout, contents) over a small value alphabet",
         "All ordered pairs of buffers over capacities 0..=4/5, every rotation, every contents over {0,1,NaN-like}: ==/!=/cross-type/partial_cmp/cmp/hash and all slice/array/reference forms agree with the same operations on plain slices, so every split of the left operand meets every split of the right; Debug equals the slice's under 7 flag combinations.", "§4 C13"),
 "C14": ("model_checking", "explicit-state BFS of the real byte-I/O impls to a fixpoint vs. Vec<u8> model",
         "Fixpoint over write/read/fill_buf/consume/flush (+push/pop) with all sizes 0..=2N+1 / 0..=N+2 / usize::MAX on CircularBuffer<N,u8>, N in 0..=5/8: counts, delivered bytes, untouched destination tail, resulting contents; never Err, never panics.", "§4 C14"),
 "C16": ("model_checking", "differential exploration: every (state, I/O action) through std::io and through embedded-io(-async), three feature builds",
         "From every state of C14's fixpoint space every I/O action is run through std::io and through the embedded trait families compiled into the build ({embedded-io}, {embedded-io-async}, {both}); returned values, contents and memory image must be identical, results Ok, async futures Ready on the first poll. A configuration that does not build is reported as a violation.", "§4 C16"),
 "C17": ("model_checking", "explicit-state BFS with an allocation monitor, per feature configuration",
         "The C01 transition relation plus all observers, executed under a counting global allocator in three builds (no features, alloc, std): zero allocations inside any non-panicking crate call except boxed()/to_vec(); the byte-I/O impls incl. read_exact/write_all likewise; a #![no_std] static library without an allocator is linked against the no-feature build. A fourth build runs the 128-byte over-aligned element (std); capacity 72 over every layout and 260 over a boundary grid with a boundary-value alphabet.", "§4 C17"),
 "C18": ("model_checking", "differential transcript of complete case spaces between nightly/default and nightly/unstable builds",
         "The nightly/default build enumerates histories (BFS) and writes one transcript line per (history, action, fault point) over the C01-C12 alphabets incl. the fault spaces; the nightly/unstable build replays the same histories; transcripts must be identical case by case. The same is done for the other element types: the byte-buffer space through std::io (every layout x I/O alphabet, provided methods, Extend<&u8>, push/pop, hash, each with a follow-up battery), the zero-sized twin (every layout x its operations x every clone/destructor fault point) and zero-sized elements at the 12 extreme capacities of C19 (all sequences of depth 2; depth 3 over the reduced alphabet in thorough). stable/default is a toolchain-drift control.", "§4 C18"),
 "C19": ("model_checking", "exhaustive depth-bounded enumeration of action sequences (no state merging) at extreme capacities with a ZST",
         "12 capacities incl. usize::MAX and neighbours of 2^63/2^32, drop-counting ZST, all sequences of depth 3/4(/5 reduced) after front-positioning prefixes near 0 and near N: no overflow/div-by-zero/bounds panic, len/returns/is_full/live count = model; overflow checks on and off (thorough).", "§4 C19"),
 "C20": ("model_checking", "explicit-state BFS with a relocation monitor",
         "Every listed O(1) operation, remove and drain from every reachable state for capacities up to 8: number of surviving elements whose address changes is within the documented bound; make_contiguous relocates nothing when already contiguous. Also capacity 72 (every layout) and 260 (boundary grid) with a boundary-value alphabet.", "§4 C20"),

 "C04": ("model_checking", "explicit-state BFS with convergence differential + exhaustive planted-garbage non-interference runs",
         "For every physical layout the unoccupied slots are overwritten with every planted filling (patterns, ids of destroyed elements, ids of live elements held elsewhere, copies of in-buffer elements) and the full alphabet is executed: outcomes identical across fillings and across layouts of equal contents, no ledger event on a non-live element; plus a fine-key BFS where every convergence of two histories on one memory image is checked for equal futures and every transition is judged for ownership (nothing presented that is held by the caller or destroyed); constructors for every source length and size_hint shape (incl. incorrect hints) must present live, distinct elements only.", "§4 C04"),
 "C05": ("fault_enumeration", "exhaustive 1-deviation fault enumeration (k-th destructor call panics) on the real code",
         "For every reachable layout, every element-destroying operation and argument, and every k, the k-th destructor call inside the operation panics once; afterwards: no destructor ran twice, the buffer is a valid sequence of live distinct elements, a follow-up battery matches the model seeded from the observed contents, and the final drop destroys nothing twice. Leaks tolerated.", "§4 C05"),
 "C06": ("fault_enumeration", "exhaustive 1-deviation fault enumeration (k-th clone/closure/iterator/comparison call panics)",
         "Same as C05 for panics in T::clone, fill closures, extend/from_iter iterators and element comparisons, at every call index k and every layout (incl. wrapped free space), plus: nothing that was created is left undestroyed once the buffer is dropped.", "§4 C06"),
 "C07": ("model_checking", "state predicate on every reachable state (ids + addresses of every view) and write-through transitions",
         "On every reachable state, every accessor at every position 0..=N+1 and usize::MAX agrees on element identity and address with every other view, None/panic exactly outside the sequence; mutable twins alias the same addresses pairwise distinct; writes through each change exactly that position; make_contiguous yields one consecutive slice.", "§4 C07"),
 "C08": ("model_checking", "exhaustive enumeration of next/next_back scripts for every iterator source on every layout",
         "Every layout x every iterator source (incl. all RangeBounds shapes) x every script in {next,next_back}^(L+2), with len/size_hint at every prefix and a cloned Iter (forward and reversed) at every prefix, compared with a deque model incl. element addresses.", "§4 C08"),
 "C09": ("model_checking", "exhaustive enumeration of drain ranges x bound shapes x consumption scripts on every reachable state",
         "Every reachable state x every range (every bound form) x every consumption script then drop: yields, len, resulting contents in order, un-yielded elements destroyed exactly once, view predicate on the result, clean final drop; all O(N^3) hole/tail/array-end configurations of the back-fill are enumerated.", "§4 C09"),
 "C10": ("fault_enumeration", "exhaustive enumeration of drain scripts with mem::forget after every prefix",
         "Every layout x every range x every script over {next,next_back} with mem::forget(drain) after every prefix: buffer afterwards holds live, distinct elements of the original contents disjoint from those handed out; follow-up battery vs. model; final drop destroys nothing twice. Also every sequence of <= 2 derived iterator calls (nth, nth_back, find, try_fold, ...) on the drain before the leak.", "§4 C10"),
}

NOT_APPLICABLE = {
 "C15": "compile-time contracts (variance, borrows, const-ness, auto traits): decided by the type checker on witness programs, there is no execution/state/history to enumerate, so model checking does not apply (DESIGN §5).",
}
# properties whose checks are still being built (kept here so the manifest is valid at every commit)
PENDING = {}

def main():
    checks = []
    for pid, (cat, tech, text, ref) in sorted(CHECKS.items()):
        checks.append(dict(
            property_id=pid,
            quick_cmd="./check %s quick" % pid,
            thorough_cmd="./check %s thorough" % pid,
            evidence_file="/verif/evidence/%s.json" % pid,
            replay_cmd_template="./check --replay {path}",
            engine="cbx",
            level_claimed=dict(category=cat, text=text, design_ref=ref),
            level_note=TRUST,
            technique=tech,
        ))
    na = [dict(property_id=k, reason=v) for k, v in sorted({**NOT_APPLICABLE, **PENDING}.items())]
    m = dict(
        version=1,
        setup_cmd="./check --setup",
        hooks=dict(
            guard="(none)",
            enable="no hooks: the harness uses the public API of /repo only (path dependency on /repo, rebuilt by cargo from the current working tree)",
            baseline_off_cmd="cd /repo && cargo test --workspace --no-fail-fast --offline",
            source_commits=[],
            add_only=True,
        ),
        engines=[dict(name="cbx", path="/verif/harness", serves_properties=sorted(CHECKS),
                      kind_free_text="purpose-built explicit-state explorer (Rust) driving the real crate through its public API; runner /verif/check (python3)")],
        checks=checks,
        not_applicable=na,
        notes="See DESIGN.md. Violations are written to /verif/replays/ and re-executed with ./check --replay <file>.",
    )
    json.dump(m, open(os.path.join(V, "MANIFEST.json"), "w"), indent=1)
    print("MANIFEST.json: %d checks, %d not_applicable" % (len(checks), len(na)))

if __name__ == "__main__":
    main()
