//! cbx — exhaustive explicit-state exploration harness for `circular-buffer`.
//!
//!   cbx run <PROPERTY> <N> <quick|thorough> [--shard i/k] [--key fine|layout]
//!   cbx replay <PROPERTY> <N> <ctor> <recipe> <filling> <act> <fault> [extra]
//!
//! Prints one JSON report on stdout.  Exit status: 0 = ran to completion (violations, if any, are
//! in the report), 3 = watchdog (a single call into the crate did not return), anything else =
//! machinery failure.

#![allow(dead_code)]
mod act;
mod alloc;
mod c13;
mod c18;
mod c19;
mod checks;
mod exec;
mod explore;
mod faults;
mod io;
mod ledger;
mod model;
mod report;
mod spaces;
mod sut;
mod zst;

use std::any::Any;
use std::cell::RefCell;

#[global_allocator]
static GLOBAL: alloc::CountingAlloc = alloc::CountingAlloc;

thread_local! {
    static LAST_PANIC: RefCell<String> = const { RefCell::new(String::new()) };
}

pub fn panic_text(p: &Box<dyn Any + Send>) -> String {
    let base = if let Some(s) = p.downcast_ref::<&str>() {
        s.to_string()
    } else if let Some(s) = p.downcast_ref::<String>() {
        s.clone()
    } else {
        "<non-string panic payload>".to_string()
    };
    let loc = LAST_PANIC.with(|l| l.borrow().clone());
    if loc.is_empty() {
        base
    } else {
        format!("{} [{}]", base, loc)
    }
}

// ---------------------------------------------------------------- crash channel / watchdog
use std::sync::atomic::{AtomicBool, AtomicU64, AtomicUsize, Ordering};

pub static PROGRESS: AtomicU64 = AtomicU64::new(0);
static CASE_LEN: AtomicUsize = AtomicUsize::new(0);
static mut CASE_BUF: [u8; 8192] = [0; 8192];
static JOURNAL: AtomicBool = AtomicBool::new(false);

#[repr(C)]
struct Timespec {
    tv_sec: i64,
    tv_nsec: i64,
}
extern "C" {
    fn clock_gettime(clk: i32, ts: *mut Timespec) -> i32;
}
/// CPU time consumed by this process so far, in seconds (CLOCK_PROCESS_CPUTIME_ID = 2 on Linux)
fn process_cpu_secs() -> f64 {
    let mut ts = Timespec { tv_sec: 0, tv_nsec: 0 };
    unsafe {
        clock_gettime(2, &mut ts);
    }
    ts.tv_sec as f64 + ts.tv_nsec as f64 * 1e-9
}

extern "C" {
    fn signal(signum: i32, handler: usize) -> usize;
    fn write(fd: i32, buf: *const u8, n: usize) -> isize;
    fn _exit(code: i32) -> !;
}

/// Record the case about to be executed (single worker thread writes; the signal handler and the
/// watchdog only read).
pub fn set_case(s: &str) {
    let b = s.as_bytes();
    let n = b.len().min(8192);
    unsafe {
        let p = std::ptr::addr_of_mut!(CASE_BUF) as *mut u8;
        std::ptr::copy_nonoverlapping(b.as_ptr(), p, n);
    }
    CASE_LEN.store(n, Ordering::SeqCst);
    PROGRESS.fetch_add(1, Ordering::Relaxed);
    if JOURNAL.load(Ordering::Relaxed) {
        eprintln!("CBX-CASE: {}", s);
    }
}

fn dump_case() {
    unsafe {
        let pre = b"\nCBX-CASE: ";
        write(2, pre.as_ptr(), pre.len());
        let p = std::ptr::addr_of!(CASE_BUF) as *const u8;
        write(2, p, CASE_LEN.load(Ordering::SeqCst));
        write(2, b"\n".as_ptr(), 1);
    }
}

extern "C" fn on_signal(_sig: i32) {
    dump_case();
    unsafe { _exit(4) }
}

fn install_crash_channel() {
    unsafe {
        for sig in [6, 11, 7, 4, 8] {
            signal(sig, on_signal as *const () as usize);
        }
    }
    JOURNAL.store(std::env::var("CBX_JOURNAL").is_ok(), Ordering::Relaxed);
    let limit: u64 = std::env::var("CBX_WATCHDOG_SECS").ok().and_then(|s| s.parse().ok()).unwrap_or(20);
    // A call that does not return is recognised by the CPU time it burns without finishing (`limit`
    // CPU-seconds, default 20), so that a merely starved worker on an overloaded machine is not mistaken
    // for a hang; a call that blocks without burning CPU is caught by a generous wall-clock limit.
    let wall_limit: u64 = std::env::var("CBX_WATCHDOG_WALL_SECS").ok().and_then(|s| s.parse().ok()).unwrap_or(900);
    std::thread::spawn(move || {
        let mut last = PROGRESS.load(Ordering::Relaxed);
        let mut cpu_at_progress = process_cpu_secs();
        let mut stale_wall = 0u64;
        loop {
            std::thread::sleep(std::time::Duration::from_secs(1));
            let now = PROGRESS.load(Ordering::Relaxed);
            if now == last && now != 0 && !DONE.load(Ordering::Relaxed) {
                stale_wall += 1;
                if process_cpu_secs() - cpu_at_progress >= limit as f64 || stale_wall >= wall_limit {
                    dump_case();
                    unsafe { _exit(3) }
                }
            } else {
                stale_wall = 0;
                last = now;
                cpu_at_progress = process_cpu_secs();
            }
        }
    });
}
static DONE: AtomicBool = AtomicBool::new(false);

macro_rules! with_n {
    ($n:expr, [$($f:tt)*], $($a:expr),*) => {
        match $n {
            0 => $($f)*::<0>($($a),*),
            1 => $($f)*::<1>($($a),*),
            2 => $($f)*::<2>($($a),*),
            3 => $($f)*::<3>($($a),*),
            4 => $($f)*::<4>($($a),*),
            5 => $($f)*::<5>($($a),*),
            6 => $($f)*::<6>($($a),*),
            7 => $($f)*::<7>($($a),*),
            8 => $($f)*::<8>($($a),*),
            16 => $($f)*::<16>($($a),*),
            33 => $($f)*::<33>($($a),*),
            _ => panic!("unsupported capacity {}", $n),
        }
    };
}

fn run(args: &[String]) -> Result<(), String> {
    let prop = args.get(0).ok_or("missing property")?.clone();
    let n: usize = args.get(1).ok_or("missing N")?.parse().map_err(|_| "bad N")?;
    let tier = args.get(2).cloned().unwrap_or_else(|| "quick".into());
    let mut shard = (0usize, 1usize);
    let mut key = None;
    let mut i = 3;
    while i < args.len() {
        match args[i].as_str() {
            "--shard" => {
                let s = args.get(i + 1).ok_or("missing shard")?;
                let (a, b) = s.split_once('/').ok_or("bad shard")?;
                shard = (a.parse().map_err(|_| "bad shard")?, b.parse().map_err(|_| "bad shard")?);
                i += 2;
            }
            "--key" => {
                key = Some(match args.get(i + 1).map(|s| s.as_str()) {
                    Some("fine") => explore::KeyMode::Fine,
                    Some("layout") => explore::KeyMode::Layout,
                    _ => return Err("bad key mode".into()),
                });
                i += 2;
            }
            x => return Err(format!("unknown option {}", x)),
        }
    }
    let o = checks::Opts { tier: tier.clone(), shard, key };
    let mut rep = report::Report::new(&prop, &prop, &n.to_string(), &tier);
    let t0 = std::time::Instant::now();
    match prop.as_str() {
        "C17" | "C20" if n == 72 => checks::large_probe::<72>(&prop, &o, &mut rep),
        "C01" | "C17" | "C20" if n == 260 => checks::large_probe::<260>(&prop, &o, &mut rep),
        "C01" | "C02" | "C03" | "C11" | "C17" | "C20" => {
            with_n!(n, [checks::bfs_check], &prop, &o, &mut rep)
        }
        "C05" | "C06" | "C10" => with_n!(n, [faults::fault_check], &prop, &o, &mut rep),
        "C13" => c13::c13_check(n, &o, &mut rep),
        "C19" => c19::c19_check(n, &o, &mut rep),
        "C14" | "C16" if n == 300 => io::io_large::<300>(&prop, &mut rep),
        "C14" | "C16" if n == 1024 => io::io_large::<1024>(&prop, &mut rep),
        "C14" => with_n!(n, [io::c14_check], &o, &mut rep),
        "C16" => with_n!(n, [io::c16_check], &o, &mut rep),
        "C04" => with_n!(n, [spaces::c04_check], &o, &mut rep),
        "C07" => with_n!(n, [spaces::c07_check], &o, &mut rep),
        "C08" => with_n!(n, [spaces::c08_check], &o, &mut rep),
        "C09" => with_n!(n, [spaces::c09_check], &o, &mut rep),
        "C12" => with_n!(n, [spaces::c12_check], &o, &mut rep),
        _ => return Err(format!("unknown property {}", prop)),
    }
    rep.wall_s = t0.elapsed().as_secs_f64();
    DONE.store(true, Ordering::Relaxed);
    println!("{}", rep.to_json());
    Ok(())
}

/// cbx c18 <N> <tier> <outfile> [--recipes FILE] [--shard i/k]
fn c18(args: &[String]) -> Result<i32, String> {
    use std::io::Write;
    let n: usize = args.get(0).ok_or("missing N")?.parse().map_err(|_| "bad N")?;
    let tier = args.get(1).cloned().unwrap_or_else(|| "quick".into());
    let out = args.get(2).ok_or("missing output file")?.clone();
    let mut shard = (0usize, 1usize);
    let mut recipes: Option<Vec<explore::Recipe>> = None;
    let mut i = 3;
    while i < args.len() {
        match args[i].as_str() {
            "--shard" => {
                let (a, b) = args.get(i + 1).ok_or("missing shard")?.split_once('/').ok_or("bad shard")?;
                shard = (a.parse().map_err(|_| "bad shard")?, b.parse().map_err(|_| "bad shard")?);
                i += 2;
            }
            "--recipes" => {
                let text = std::fs::read_to_string(args.get(i + 1).ok_or("missing recipes file")?).map_err(|e| e.to_string())?;
                let mut v = vec![];
                for l in text.lines() {
                    let (c, a) = l.split_once('\t').ok_or("bad recipe line")?;
                    v.push(explore::Recipe::parse(c, a).ok_or("bad recipe")?);
                }
                recipes = Some(v);
                i += 2;
            }
            x => return Err(format!("unknown option {}", x)),
        }
    }
    let o = checks::Opts { tier, shard, key: None };
    let mut f = std::io::BufWriter::new(std::fs::File::create(&out).map_err(|e| e.to_string())?);
    let mut rf = std::io::BufWriter::new(std::fs::File::create(format!("{}.recipes", out)).map_err(|e| e.to_string())?);
    let t0 = std::time::Instant::now();
    let (nrec, lines) = with_n!(n, [c18::c18_transcript], &o, recipes, &mut f, &mut rf);
    f.flush().map_err(|e| e.to_string())?;
    rf.flush().map_err(|e| e.to_string())?;
    DONE.store(true, Ordering::Relaxed);
    println!("{{\"recipes\":{},\"lines\":{},\"wall_s\":{:.3}}}", nrec, lines, t0.elapsed().as_secs_f64());
    Ok(0)
}

/// cbx c18-one <N> <ctor> <recipe> <act> <fault>: one transcript line (replay of a C18 difference)
fn c18_one(args: &[String]) -> Result<i32, String> {
    let g = |i: usize| args.get(i).cloned().unwrap_or_default();
    let n: usize = g(0).parse().map_err(|_| "bad N")?;
    fn one<const N: usize>(ctor: &str, recipe: &str, act: &str, fault: &str) -> Result<String, String> {
        if ctor == "io" {
            let (r, a) = io::c18_parse_io(recipe, act).ok_or("bad io case")?;
            return Ok(io::c18_io_line::<N>(&r, &a));
        }
        if ctor == "zst-cap" {
            return c19::c18_one(recipe, act).ok_or("bad zst-cap case".into());
        }
        if ctor == "zst" {
            let (rot, len) = recipe.split_once(',').ok_or("bad zst layout")?;
            let (rot, len): (usize, usize) = (rot.parse().map_err(|_| "bad rot")?, len.parse().map_err(|_| "bad len")?);
            let op = zst::ZOp::parse(act).ok_or("bad zst op")?;
            let f = match fault.split_once('#') {
                None => None,
                Some((k, i)) => Some((if k == "clone" { 0u8 } else { 1u8 }, i.parse::<u32>().map_err(|_| "bad fault")?)),
            };
            let (probs, clones, drops) = zst::zst_case::<N>(rot, len, op, f);
            return Ok(format!("clone-calls {} destructor-calls {} problems {:?}", clones, drops, probs));
        }
        let fault = explore::parse_fault(fault).ok_or("bad fault")?;
        if act == "ctor" {
            let c = act::Ctor::parse(ctor).ok_or("bad ctor")?;
            let (_, _, probs, summary) = faults::ctor_fault_case::<N>("C05", c, fault);
            return Ok(format!("{} problems[{}]", summary, probs.iter().map(|p| p.0.kind.name()).collect::<Vec<_>>().join(",")));
        }
        let r = explore::Recipe::parse(ctor, recipe).ok_or("bad recipe")?;
        let a = act::Act::parse(act).ok_or("bad action")?;
        Ok(c18::transcript_case::<N>(&r, &a, fault).0)
    }
    let line = with_n!(n, [one], &g(1), &g(2), &g(3), &g(4))?;
    DONE.store(true, Ordering::Relaxed);
    println!("{}", line);
    Ok(0)
}

fn replay(args: &[String]) -> Result<i32, String> {
    let g = |i: usize| args.get(i).cloned().unwrap_or_default();
    let prop = g(0);
    let n: usize = g(1).parse().map_err(|_| "bad N")?;
    let case = checks::Case { prop: prop.clone(), n, ctor: g(2), recipe: g(3), filling: g(4), act: g(5), fault: g(6), extra: g(7) };
    let r = match prop.as_str() {
        _ if case.act == "zst" => with_n!(n, [zst::replay_zst], &case),
        _ if case.act == "huge-full" || case.act == "huge-iter" => c19::replay_c19(&case),
        "C01" | "C02" | "C11" | "C04" if case.extra == "io" => with_n!(n, [io::replay_u8_twin], &case),
        "C14" | "C17" if case.extra.starts_with("utf8") => with_n!(n, [io::replay_utf8], &case),
        "C17" if case.extra == "io-alloc" => with_n!(n, [io::replay_io], &case),
        "C17" | "C20" if n == 72 => checks::replay_bfs::<72>(&case),
        "C01" | "C17" | "C20" if n == 260 => checks::replay_bfs::<260>(&case),
        "C01" | "C02" | "C03" | "C11" | "C17" | "C20" => with_n!(n, [checks::replay_bfs], &case),
        "C05" | "C06" | "C10" => with_n!(n, [faults::replay_fault], &case),
        "C13" => c13::replay_c13(&case),
        "C19" => c19::replay_c19(&case),
        "C14" | "C16" if n == 300 => io::replay_io::<300>(&case),
        "C14" | "C16" if n == 1024 => io::replay_io::<1024>(&case),
        "C14" | "C16" => with_n!(n, [io::replay_io], &case),
        "C04" => with_n!(n, [spaces::replay_c04], &case),
        "C07" => with_n!(n, [spaces::replay_c07], &case),
        "C08" => with_n!(n, [spaces::replay_c08], &case),
        "C09" => with_n!(n, [checks::replay_generic], &case, &[exec::PKind::Trace, exec::PKind::Contents, exec::PKind::Views, exec::PKind::PanicMismatch, exec::PKind::BadEvent, exec::PKind::Leak, exec::PKind::DeadReachable, exec::PKind::Duplicate]),
        "C12" => with_n!(n, [spaces::replay_c12], &case),
        _ => return Err(format!("unknown property {}", prop)),
    };
    DONE.store(true, Ordering::Relaxed);
    r
}

fn main() {
    std::panic::set_hook(Box::new(|info| {
        let loc = info.location().map(|l| format!("{}:{}", l.file(), l.line())).unwrap_or_default();
        let _ = LAST_PANIC.try_with(|l| *l.borrow_mut() = loc);
        if std::env::var_os("CBX_BACKTRACE").is_some() {
            eprintln!("panic at {:?}\n{}", info.location(), std::backtrace::Backtrace::force_capture());
        }
    }));
    // crash channel + watchdog: a single call into the crate that does not return within 20 s
    install_crash_channel();
    let args: Vec<String> = std::env::args().skip(1).collect();
    let r = std::panic::catch_unwind(|| match args.first().map(|s| s.as_str()) {
        Some("run") => run(&args[1..]).map(|_| 0),
        Some("replay") => replay(&args[1..]),
        Some("c18") => c18(&args[1..]),
        Some("c18-one") => c18_one(&args[1..]),
        _ => Err("usage: cbx run <PROPERTY> <N> <tier> [--shard i/k]".to_string()),
    });
    match r {
        Ok(Ok(code)) => std::process::exit(code),
        Ok(Err(e)) => {
            eprintln!("cbx: {}", e);
            std::process::exit(2);
        }
        Err(p) => {
            eprintln!("cbx: harness panicked: {}", panic_text(&p));
            std::process::exit(2);
        }
    }
}
