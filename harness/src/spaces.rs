//! C04 (garbage non-interference), C07 (views agree), C08 (iterator protocol), C09 (drain),
//! C12 (constructors / conversions).  DESIGN §4.

use crate::act::*;
use crate::checks::{account, finish_space, ctor_checks, Case, Opts};
use crate::exec::*;
use crate::explore::*;
use crate::ledger::{self, tag_of, tag_str, Tag, E};
use crate::model::{self, Obs};
use crate::report::*;
use crate::sut::*;
use std::collections::HashMap;
use std::hash::{Hash, Hasher};

fn pb(kind: PKind, detail: String) -> Problem {
    Problem { kind, detail }
}

fn layout_space<const N: usize>() -> Space {
    let mut cb = |_i: usize, _st: &State, _a: &Act, _t: &Trans| {};
    explore::<N>(KeyMode::Layout, &Limits::default(), &grow_alphabet, &mut cb)
}

fn bad_events(tr: &Trans) -> Vec<String> {
    let mut v: Vec<String> = tr.rec.events.iter().filter(|e| e.is_bad()).map(|e| e.show()).collect();
    for p in &tr.final_problems {
        if p.kind == PKind::BadEvent {
            v.push(p.detail.clone());
        }
    }
    v
}

// =====================================================================================  C04

/// Everything observable about one transition, as a comparable value (no addresses, no ids).
#[derive(PartialEq, Eq, Hash, Debug, Clone)]
pub struct Outcome {
    panicked: bool,
    trace: Vec<Obs>,
    post: Vec<Tag>,
    lens: (usize, bool, bool),
    final_panic: bool,
}
fn outcome(tr: &Trans) -> Outcome {
    // what a *leaked* drain leaves behind is explicitly unspecified (it may even depend on the layout),
    // so only what it yielded is compared there
    let unspecified = matches!(tr.rec.act, Act::Drain(_, _, Fin::Forget)) && !tr.rec.panicked;
    Outcome {
        panicked: tr.rec.panicked,
        trace: tr.rec.trace.clone(),
        post: if unspecified { vec![] } else { tr.rec.post_tags.clone() },
        lens: if unspecified { (0, true, false) } else { (tr.rec.post.len, tr.rec.post.is_empty, tr.rec.post.is_full) },
        final_panic: tr.final_problems.iter().any(|p| p.kind == PKind::PanicMismatch),
    }
}
fn show_outcome(o: &Outcome) -> String {
    format!(
        "{} <{}> contents {}",
        if o.panicked { "panicked" } else { "returned" },
        model::show_trace(&o.trace),
        model::show_tags(&o.post)
    )
}

/// mutators + observers + consuming actions: the alphabet under which garbage must be invisible
pub fn c04_alphabet(n: usize, len: usize) -> Vec<Act> {
    let mut v = grow_alphabet(n, len);
    v.extend(observers_basic(n, len));
    v.push(Act::IntoIter(Script::all_front(len + 1)));
    v.push(Act::IntoIter(Script::all_back(len)));
    v.push(Act::DropBuf);
    // partially consumed drains and owning iterators: the un-yielded part is destroyed by the crate
    let cap = if n <= 4 { 4 } else { 2 };
    for a in 0..=len {
        for b in a..=len {
            for s in Script::all_up_to((b - a).min(cap)) {
                if s.len > 0 && s.len as usize != b - a + 1 {
                    v.push(Act::Drain(Rs::half_open(a, b), s, Fin::Drop));
                }
            }
        }
    }
    for s in Script::all_up_to(len.min(cap)) {
        if s.len > 0 {
            v.push(Act::IntoIter(s));
        }
        for k in 0..3 {
            v.push(Act::IterDebug(k, s));
        }
        v.push(Act::IntoIterClone(s));
    }
    for a in 0..=len {
        for b in a..=len {
            for s in Script::all_up_to((b - a).min(cap)) {
                v.push(Act::DrainDebug(Rs::half_open(a, b), s));
            }
        }
    }
    v.extend(steps_probes(n, len, &[0, 1, 4], 2));
    v.extend(steps_probes(n, len, &[2, 5], 1));
    for mm in 0..=n.min(3) {
        v.push(Act::IntoIterCloneFrom(len.min(1), mm, mm.min(1)));
    }
    v
}

pub fn observers_basic(n: usize, len: usize) -> Vec<Act> {
    use Act::*;
    let idx = idx_domain(n);
    let mut v = vec![Front, Back, AsSlices, AsMutSlices, ToVec, CloneBuf, HashIt, EqSelfClone, EqSlice, CmpSelfClone];
    for &i in &idx {
        v.extend([Get(i), NthFront(i), NthBack(i), Index(i)]);
    }
    v.push(Iter(Script::all_front(len + 1)));
    v.push(Iter(Script::all_back(len + 1)));
    v.push(IterMut(Script::all_front(len + 1)));
    v.push(IterMut(Script::all_back(len + 1)));
    for k in 0..model::N_FMTS {
        v.push(DebugFmt(k));
    }
    for mm in 0..=n.min(2) {
        v.push(EqOther(mm));
        v.push(CmpOther(mm));
    }
    for a in 0..=len {
        for b in a..=len {
            v.push(Range(Rs::half_open(a, b), Script::all_front(b - a + 1)));
            v.push(RangeMut(Rs::half_open(a, b), Script::all_back(b - a + 1)));
        }
    }
    v
}

/// the small probing alphabet used for the convergence differential
fn probe_alphabet(n: usize, len: usize) -> Vec<Act> {
    use Act::*;
    let mut v = vec![
        PushBack, PushFront, PopBack, PopFront, Clear, Fill, FillSpare, MakeContiguous, AsSlices, HashIt, DebugFmt(0),
        ToVec, CloneBuf, EqSelfClone, CmpSelfClone, DropBuf,
        Iter(Script::all_front(len + 1)),
        IntoIter(Script::all_back(len + 1)),
        ExtendFromSlice(1), ExtendFromSlice(n / 2 + 1), ExtendFromSlice(n), Extend(n + 1),
        TruncateBack(len / 2), TruncateFront(len / 2),
    ];
    for i in 0..len {
        v.push(Remove(i));
        v.push(SwapRemoveBack(i));
        v.push(SwapRemoveFront(i));
    }
    for a in 0..=len {
        for b in a..=len {
            v.push(Drain(Rs::half_open(a, b), Script::all_front((b - a).min(1)), Fin::Drop));
        }
    }
    v
}

fn future_signature<const N: usize>(recipe: &Recipe, len: usize) -> (u64, Vec<String>) {
    let mut h = Fnv::default();
    let mut bad = vec![];
    for act in probe_alphabet(N, len) {
        let tr = transition::<N>(recipe, &[], &act, None);
        outcome(&tr).hash(&mut h);
        for b in bad_events(&tr) {
            bad.push(format!("{}: {}", act, b));
        }
    }
    (h.finish(), bad)
}

/// all fillings to plant for a state with `free` unoccupied slots
fn fillings(free: usize, len: usize, per_slot: bool) -> Vec<Vec<Plant>> {
    let mut classes = vec![Plant::P5A, Plant::P00, Plant::PFF, Plant::Dead, Plant::Held];
    if len > 0 {
        classes.push(Plant::Dup(0));
        if len > 1 {
            classes.push(Plant::Dup((len - 1) as u8));
        }
    }
    if free == 0 {
        return vec![vec![]];
    }
    if !per_slot {
        return classes.iter().map(|c| vec![*c]).collect();
    }
    // every per-slot assignment; the all-5A assignment first (reference)
    let k = classes.len();
    let total = k.pow(free as u32);
    (0..total)
        .map(|mut x| {
            (0..free)
                .map(|_| {
                    let c = classes[x % k];
                    x /= k;
                    c
                })
                .collect()
        })
        .collect()
}

pub fn c04_check<const N: usize>(o: &Opts, rep: &mut Report) {
    rep.notes.push(format!("N={} {}", N, calib::<N>().note));
    // constructors are operations too: what a freshly built buffer presents must be live elements only, for every
    // source length and every size_hint shape of the source iterator (correct, loose and incorrect ones)
    if o.shard.0 == 0 {
        ctor_checks::<N>("C04", rep);
    }
    // (c) fine-key BFS with the convergence differential
    let mut sigs: HashMap<usize, (u64, usize)> = HashMap::new(); // representative index -> (signature, newcomers compared)
    let mut pending: Vec<(usize, Recipe)> = vec![];
    let sp = {
        let mut cb = |_i: usize, st: &State, act: &Act, tr: &Trans| {
            if o.shard.0 != 0 {
                return; // the BFS phase is identical in every shard: judged and counted once
            }
            account(rep, st, act, tr);
            // garbage must never be touched on any explored transition
            for b in bad_events(tr) {
                record(rep, N, &st.recipe, &[], act, None, &pb(PKind::BadEvent, b), "history-garbage");
            }
            // what the buffer presents after the call must be live elements that nobody else owns: a position showing
            // an element that was moved out to the caller (or destroyed) is a slot without a live element being read
            if tr.rec.post.ok {
                for p in balance(&tr.rec) {
                    if matches!(p.kind, PKind::Duplicate | PKind::DeadReachable) {
                        record(rep, N, &st.recipe, &[], act, None, &p, "history-ownership");
                    }
                }
            }
        };
        let mut dup = |ix: usize, r: &Recipe| {
            let e = sigs.entry(ix).or_insert((0, 0));
            if e.1 < 2 {
                e.1 += 1;
                pending.push((ix, r.clone()));
            }
        };
        let mode = if N <= 5 || (o.thorough() && N <= 6) { KeyMode::Fine } else { KeyMode::Layout };
        explore_dup::<N>(mode, &Limits::default(), &grow_alphabet, &mut cb, &mut dup)
    };
    let mut rep_sig: HashMap<usize, u64> = HashMap::new();
    for (k, (ix, newcomer)) in pending.iter().enumerate() {
        if !o.mine(k) {
            continue;
        }
        let st = &sp.states[*ix];
        if newcomer == &st.recipe {
            continue;
        }
        let s0 = *rep_sig.entry(*ix).or_insert_with(|| future_signature::<N>(&st.recipe, st.len).0);
        let (s1, _) = future_signature::<N>(newcomer, st.len);
        rep.count("convergence_pairs_compared", 1);
        rep.transitions += 2 * probe_alphabet(N, st.len).len() as u64;
        rep.validated += 1;
        if s0 != s1 {
            // find the first differing probe
            for act in probe_alphabet(N, st.len) {
                let a = outcome(&transition::<N>(&st.recipe, &[], &act, None));
                let b = outcome(&transition::<N>(newcomer, &[], &act, None));
                if a != b {
                    let p = pb(
                        PKind::Interference,
                        format!(
                            "two histories reach the same memory image but behave differently: <{}> gives {} while <{}> gives {}",
                            st.recipe.show(),
                            show_outcome(&a),
                            newcomer.show(),
                            show_outcome(&b)
                        ),
                    );
                    let mut v_rep = rep.violations.len();
                    record(rep, N, newcomer, &[], &act, None, &p, "convergence");
                    if rep.violations.len() > v_rep {
                        v_rep = rep.violations.len() - 1;
                        rep.violations[v_rep].replay.extra = format!("ref={}|{}", st.recipe.ctor, st.recipe.acts_str());
                    }
                    break;
                }
            }
        }
    }
    finish_space(rep, &sp);

    // (a)(b) planted fillings on one representative per layout
    let lay = layout_space::<N>();
    let per_slot = o.thorough() && N <= 4;
    let mut by_len: HashMap<(usize, Act), (Outcome, Recipe)> = HashMap::new();
    for (i, st) in lay.states.iter().enumerate() {
        let free = N - st.len;
        let fl = fillings(free, st.len, per_slot);
        for act in c04_alphabet(N, st.len) {
            let mut reference: Option<Outcome> = None;
            for (fi, f) in fl.iter().enumerate() {
                if fi > 0 && !o.mine(i) {
                    continue;
                }
                let tr = transition::<N>(&st.recipe, f, &act, None);
                if fi > 0 || o.shard.0 == 0 {
                    rep.transitions += 1;
                    rep.evaluations += 1;
                    rep.validated += 1;
                    rep.action(act.name());
                    rep.count("planted_runs", 1);
                }
                if fi > 0 {
                    rep.nontrivial += 1;
                }
                let oc = outcome(&tr);
                rep.outcomes.insert(fnv_of(&oc) ^ fnv_of(act.name()));
                for b in bad_events(&tr) {
                    record(rep, N, &st.recipe, f, &act, None, &pb(PKind::BadEvent, b), "planted");
                }
                match &reference {
                    None => {
                        // (d) equal logical contents ⇒ equal behaviour, whatever the layout
                        match by_len.get(&(st.len, act)) {
                            None => {
                                by_len.insert((st.len, act), (oc.clone(), st.recipe.clone()));
                            }
                            Some((o0, r0)) => {
                                rep.count("cross_layout_comparisons", 1);
                                if *o0 != oc {
                                    let p = pb(
                                        PKind::Interference,
                                        format!(
                                            "same logical contents, different layout, different behaviour: <{}> gives {} while <{}> gives {}",
                                            r0.show(),
                                            show_outcome(o0),
                                            st.recipe.show(),
                                            show_outcome(&oc)
                                        ),
                                    );
                                    let before = rep.violations.len();
                                    record(rep, N, &st.recipe, f, &act, None, &p, "cross-layout");
                                    if rep.violations.len() > before {
                                        rep.violations[before].replay.extra = format!("ref={}|{}", r0.ctor, r0.acts_str());
                                    }
                                }
                            }
                        }
                        reference = Some(oc.clone());
                    }
                    Some(r) => {
                        if *r != oc {
                            let p = pb(
                                PKind::Interference,
                                format!(
                                    "result depends on the bytes in unoccupied slots: with filling <{}> {} but with <{}> {}",
                                    show_filling(&fl[0]),
                                    show_outcome(r),
                                    show_filling(f),
                                    show_outcome(&oc)
                                ),
                            );
                            record(rep, N, &st.recipe, f, &act, None, &p, "planted");
                        }
                    }
                }
                if fi == 1 {
                    let s = format!(
                        "N={} layout<{}> free slots planted <{}> --{}--> {} (identical to the run with <{}>)",
                        N,
                        st.recipe.show(),
                        show_filling(f),
                        act,
                        show_outcome(&oc),
                        show_filling(&fl[0])
                    );
                    rep.sample(&format!("plant-{}", act.name()), move || s);
                }
            }
        }
    }
    rep.states += lay.states.len() as u64;
    // "destroys a slot that does not hold a live element" also under a panicking destructor
    if N <= 8 {
        crate::faults::destroyed_twice_space::<N>("C04", &lay, o, rep, &|_a| true);
    }
    // byte buffers: the I/O trait impls move the front position by their own code
    if o.shard.0 == 0 && N <= 8 {
        crate::io::u8_twin::<N>("C04", rep);
    }
}

pub fn replay_c04<const N: usize>(c: &Case) -> Result<i32, String> {
    if c.act == "ctor-only" {
        return crate::checks::replay_bfs::<N>(c);
    }
    if c.fault != "none" && !c.fault.is_empty() {
        let mut c5 = Case { prop: "C05".into(), n: c.n, ctor: c.ctor.clone(), recipe: c.recipe.clone(), filling: c.filling.clone(), act: c.act.clone(), fault: c.fault.clone(), extra: c.extra.clone() };
        c5.prop = "C05".into();
        return crate::faults::replay_fault::<N>(&c5);
    }
    let recipe = Recipe::parse(&c.ctor, &c.recipe).ok_or("bad recipe")?;
    let act = Act::parse(&c.act).ok_or("bad action")?;
    let filling = parse_filling(&c.filling).ok_or("bad filling")?;
    let tr = transition::<N>(&recipe, &filling, &act, None);
    let oc = outcome(&tr);
    println!("N={} state <{}> filling <{}> action {}", N, recipe.show(), show_filling(&filling), act);
    println!("  -> {}", show_outcome(&oc));
    let mut bad = bad_events(&tr);
    // reference run: other recipe (convergence / cross-layout) or the plain 5A filling
    let (r2, f2) = match c.extra.strip_prefix("ref=") {
        Some(x) => {
            let (ct, acts) = x.split_once('|').ok_or("bad ref")?;
            (Recipe::parse(ct, acts).ok_or("bad ref recipe")?, vec![])
        }
        None => (recipe.clone(), vec![Plant::P5A]),
    };
    let tr2 = transition::<N>(&r2, &f2, &act, None);
    let oc2 = outcome(&tr2);
    println!("reference: state <{}> filling <{}>", r2.show(), show_filling(&f2));
    println!("  -> {}", show_outcome(&oc2));
    bad.extend(bad_events(&tr2));
    let mut code = 0;
    if oc != oc2 {
        println!("VIOLATION REPRODUCED: [interference] the two runs must be indistinguishable but differ");
        code = 1;
    }
    for b in bad {
        println!("VIOLATION REPRODUCED: [bad-event] {}", b);
        code = 1;
    }
    Ok(code)
}

// =====================================================================================  C07

/// The state predicate of C07 on one state: every view presents the same elements at the same addresses.
pub fn c07_state<const N: usize>(recipe: &Recipe) -> Vec<Problem> {
    let mut out = vec![];
    let mut sut = rebuild::<N>(recipe);
    let snap = sut.snap();
    if let Err(e) = snap.views_agree() {
        out.push(pb(PKind::Views, e));
        return out;
    }
    ledger::relabel(&snap.iter);
    let occ = snap.occ();
    let len = snap.len;
    let ids = snap.iter.clone();
    let want = |i: usize| -> Option<(u32, usize)> { if i < len { Some((ids[i], occ[i])) } else { None } };
    let chk = |name: &str, i: usize, got: Option<(u32, usize)>, want: Option<(u32, usize)>, out: &mut Vec<Problem>| {
        if got != want {
            out.push(pb(PKind::Views, format!("{}({}) gives (id,slot) {:?}, expected {:?} [len {}]", name, if i == MAXI { "MAX".into() } else { i.to_string() }, got, want, len)));
        }
    };
    let r = std::panic::catch_unwind(std::panic::AssertUnwindSafe(|| {
        let mut out: Vec<Problem> = vec![];
        for i in idx_domain(N) {
            let b = sut.bref();
            let loc = |e: &E| (e.0, sut.slot_of(e));
            chk("get", i, b.get(i).map(loc), want(i), &mut out);
            chk("nth_front", i, b.nth_front(i).map(loc), want(i), &mut out);
            let wb = if i < len { want(len - 1 - i) } else { None };
            chk("nth_back", i, b.nth_back(i).map(loc), wb, &mut out);
            chk("iter().nth", i, b.iter().nth(i).map(loc), want(i), &mut out);
            chk("iter().rev().nth", i, b.iter().rev().nth(i).map(loc), wb, &mut out);
            if i < len {
                chk("index", i, Some(loc(&b[i])), want(i), &mut out);
                chk("range(i..=i)", i, b.range(i..=i).next().map(loc), want(i), &mut out);
                chk("range(i..)", i, b.range(i..).next().map(loc), want(i), &mut out);
                chk("range(..=i).last", i, b.range(..=i).next_back().map(loc), want(i), &mut out);
            }
            let (s0, s1) = b.as_slices();
            let g = if i < s0.len() { s0.get(i) } else { s1.get(i.wrapping_sub(s0.len())) };
            chk("as_slices", i, g.map(loc), want(i), &mut out);
        }
        {
            let b = sut.bref();
            let loc = |e: &E| (e.0, sut.slot_of(e));
            // derived iterator methods (nth, nth_back, last, count, skip, step_by, rev): whatever the
            // crate overrides must still present the same sequence
            let all: Vec<(u32, usize)> = (0..len).map(|r| (ids[r], occ[r])).collect();
            for a in 0..=len {
                for bb in a..=len {
                    let want_r = &all[a..bb];
                    let l = bb - a;
                    for k in [0usize, 1, 2, l.saturating_sub(1), l, l + 1, MAXI] {
                        let w = if k < l { Some(want_r[k]) } else { None };
                        let g = b.range(a..bb).nth(k).map(loc);
                        if g != w {
                            out.push(pb(PKind::Views, format!("range({}..{}).nth({}) gives {:?} expected {:?}", a, bb, k, g, w)));
                        }
                        let w = if k < l { Some(want_r[l - 1 - k]) } else { None };
                        let g = b.range(a..bb).nth_back(k).map(loc);
                        if g != w {
                            out.push(pb(PKind::Views, format!("range({}..{}).nth_back({}) gives {:?} expected {:?}", a, bb, k, g, w)));
                        }
                        if k <= l + 1 {
                            let g: Vec<(u32, usize)> = b.range(a..bb).skip(k).map(loc).collect();
                            let w: Vec<(u32, usize)> = want_r.iter().skip(k).copied().collect();
                            if g != w {
                                out.push(pb(PKind::Views, format!("range({}..{}).skip({}) gives {:?} expected {:?}", a, bb, k, g, w)));
                            }
                        }
                    }
                    if b.range(a..bb).count() != l || b.range(a..bb).last().map(loc) != want_r.last().copied() {
                        out.push(pb(PKind::Views, format!("range({}..{}): count()/last() disagree with the sequence", a, bb)));
                    }
                    let g: Vec<(u32, usize)> = b.range(a..bb).step_by(2).map(loc).collect();
                    let w: Vec<(u32, usize)> = want_r.iter().step_by(2).copied().collect();
                    if g != w {
                        out.push(pb(PKind::Views, format!("range({}..{}).step_by(2) gives {:?} expected {:?}", a, bb, g, w)));
                    }
                    for k in 0..=l + 1 {
                        let g: Vec<(u32, usize)> = b.range(a..bb).rev().skip(k).map(loc).collect();
                        let w: Vec<(u32, usize)> = want_r.iter().rev().skip(k).copied().collect();
                        if g != w {
                            out.push(pb(PKind::Views, format!("range({}..{}).rev().skip({}) gives {:?} expected {:?}", a, bb, k, g, w)));
                        }
                    }
                    let g: Vec<(u32, usize)> = b.range(a..bb).rev().step_by(2).map(loc).collect();
                    let w: Vec<(u32, usize)> = want_r.iter().rev().step_by(2).copied().collect();
                    if g != w {
                        out.push(pb(PKind::Views, format!("range({}..{}).rev().step_by(2) gives {:?} expected {:?}", a, bb, g, w)));
                    }
                    let g: Vec<(u32, usize)> = b.range(a..bb).rev().map(loc).collect();
                    let w: Vec<(u32, usize)> = want_r.iter().rev().copied().collect();
                    if g != w {
                        out.push(pb(PKind::Views, format!("range({}..{}).rev() gives {:?} expected {:?}", a, bb, g, w)));
                    }
                }
            }
            let via_ref: Vec<(u32, usize)> = (&*b).into_iter().map(loc).collect();
            let via_iter: Vec<(u32, usize)> = b.iter().map(loc).collect();
            if via_ref != via_iter {
                out.push(pb(PKind::Views, format!("`for x in &buf` yields {:?} but iter() yields {:?}", via_ref, via_iter)));
            }
            chk("front", 0, b.front().map(loc), want(0), &mut out);
            chk("back", 0, b.back().map(loc), if len > 0 { want(len - 1) } else { None }, &mut out);
            #[cfg(feature = "alloc")]
            {
                let v = b.to_vec();
                let got: Vec<Tag> = v.iter().map(|e| tag_of(e.0)).collect();
                let exp: Vec<Tag> = (0..len).map(|r| ledger::t_c(ledger::t_r(r))).collect();
                if got != exp {
                    out.push(pb(PKind::Views, format!("to_vec gives {} expected {}", model::show_tags(&got), model::show_tags(&exp))));
                }
            }
            for k in 0..model::N_FMTS {
                let got = model::fmt_with(b, k);
                let exp = model::debug_string(&(0..len).map(ledger::t_r).collect::<Vec<_>>(), k);
                if got != exp {
                    out.push(pb(PKind::Views, format!("Debug (format {}) gives {:?} expected {:?}", k, got, exp)));
                }
            }
        }
        // mutable twins: same addresses, pairwise distinct, collected simultaneously
        let base = sut.base();
        let cal = sut.cal.clone();
        let slot = move |e: &E| -> usize {
            let off = (e as *const E as usize).wrapping_sub(base);
            if off < cal.items_off || (off - cal.items_off) % cal.stride != 0 {
                return usize::MAX;
            }
            (off - cal.items_off) / cal.stride
        };
        for i in idx_domain(N) {
            let b = sut.buf();
            let g = b.get_mut(i).map(|e| (e.0, slot(e)));
            chk("get_mut", i, g, want(i), &mut out);
            let g = b.nth_front_mut(i).map(|e| (e.0, slot(e)));
            chk("nth_front_mut", i, g, want(i), &mut out);
            let wb = if i < len { want(len - 1 - i) } else { None };
            let g = b.nth_back_mut(i).map(|e| (e.0, slot(e)));
            chk("nth_back_mut", i, g, wb, &mut out);
            if i < len {
                let e = &mut b[i];
                let g = Some((e.0, slot(e)));
                chk("index_mut", i, g, want(i), &mut out);
                let g = b.range_mut(i..=i).next().map(|e| (e.0, slot(e)));
                chk("range_mut(i..=i)", i, g, want(i), &mut out);
            }
        }
        {
            let b = sut.buf();
            let g = b.front_mut().map(|e| (e.0, slot(e)));
            chk("front_mut", 0, g, want(0), &mut out);
            let g = b.back_mut().map(|e| (e.0, slot(e)));
            chk("back_mut", 0, g, if len > 0 { want(len - 1) } else { None }, &mut out);
            let all: Vec<&mut E> = b.iter_mut().collect();
            let got: Vec<(u32, usize)> = all.iter().map(|e| (e.0, slot(e))).collect();
            let exp: Vec<(u32, usize)> = (0..len).map(|r| (ids[r], occ[r])).collect();
            if got != exp {
                out.push(pb(PKind::Views, format!("iter_mut (collected simultaneously) gives {:?} expected {:?}", got, exp)));
            }
            drop(all);
            for k in [0usize, 1, 2, len.saturating_sub(1), len, len + 1, len + 2, MAXI] {
                let w = if k < len { Some(exp[k]) } else { None };
                let g = b.iter_mut().nth(k).map(|e| (e.0, slot(e)));
                if g != w {
                    out.push(pb(PKind::Views, format!("iter_mut().nth({}) gives {:?} expected {:?}", k, g, w)));
                }
                let w = if k < len { Some(exp[len - 1 - k]) } else { None };
                let g = b.iter_mut().nth_back(k).map(|e| (e.0, slot(e)));
                if g != w {
                    out.push(pb(PKind::Views, format!("iter_mut().nth_back({}) gives {:?} expected {:?}", k, g, w)));
                }
                if k <= len + 2 {
                    let g: Vec<(u32, usize)> = b.iter_mut().skip(k).map(|e| (e.0, slot(e))).collect();
                    let w: Vec<(u32, usize)> = exp.iter().skip(k).copied().collect();
                    if g != w {
                        out.push(pb(PKind::Views, format!("iter_mut().skip({}) gives {:?} expected {:?}", k, g, w)));
                    }
                    let g: Vec<(u32, usize)> = b.range_mut(..).skip(k).map(|e| (e.0, slot(e))).collect();
                    if g != w {
                        out.push(pb(PKind::Views, format!("range_mut(..).skip({}) gives {:?} expected {:?}", k, g, w)));
                    }
                }
            }
            for st in 1..=3usize {
                let g: Vec<(u32, usize)> = b.iter_mut().step_by(st).map(|e| (e.0, slot(e))).collect();
                let w: Vec<(u32, usize)> = exp.iter().step_by(st).copied().collect();
                if g != w {
                    out.push(pb(PKind::Views, format!("iter_mut().step_by({}) gives {:?} expected {:?}", st, g, w)));
                }
            }
            let g: Vec<(u32, usize)> = b.iter_mut().rev().map(|e| (e.0, slot(e))).collect();
            let w: Vec<(u32, usize)> = exp.iter().rev().copied().collect();
            if g != w || b.iter_mut().count() != len || b.iter_mut().last().map(|e| (e.0, slot(e))) != exp.last().copied() {
                out.push(pb(PKind::Views, "iter_mut(): rev()/count()/last() disagree with the sequence".into()));
            }
            let (m0, m1) = b.as_mut_slices();
            let got: Vec<(u32, usize)> = m0.iter().chain(m1.iter()).map(|e| (e.0, slot(e))).collect();
            if got != exp {
                out.push(pb(PKind::Views, format!("as_mut_slices gives {:?} expected {:?}", got, exp)));
            }
            for a in 0..=len {
                for bb in a..=len {
                    let got: Vec<(u32, usize)> = b.range(a..bb).map(|e| (e.0, slot(e))).collect();
                    if got != exp[a..bb] {
                        out.push(pb(PKind::Views, format!("range({}..{}) gives {:?} expected {:?}", a, bb, got, &exp[a..bb])));
                    }
                    let all: Vec<&mut E> = b.range_mut(a..bb).collect();
                    let got: Vec<(u32, usize)> = all.iter().map(|e| (e.0, slot(e))).collect();
                    if got != exp[a..bb] {
                        out.push(pb(PKind::Views, format!("range_mut({}..{}) gives {:?} expected {:?}", a, bb, got, &exp[a..bb])));
                    }
                }
            }
            // make_contiguous: all elements, consecutive addresses, model order; afterwards one slice
            let s = b.make_contiguous();
            let got: Vec<u32> = s.iter().map(|e| e.0).collect();
            if got != ids {
                out.push(pb(PKind::Views, format!("make_contiguous returns ids {:?} expected {:?}", got, ids)));
            }
            let slots: Vec<usize> = s.iter().map(|e| slot(e)).collect();
            if slots.windows(2).any(|w| w[1] != w[0] + 1) {
                out.push(pb(PKind::Views, format!("make_contiguous slice is not at consecutive addresses: {:?}", slots)));
            }
            let (x, y) = b.as_slices();
            if !y.is_empty() || x.iter().map(|e| e.0).collect::<Vec<_>>() != ids {
                out.push(pb(PKind::Views, "after make_contiguous, as_slices does not report a single slice with all elements".into()));
            }
        }
        out
    }));
    match r {
        Ok(v) => out.extend(v),
        Err(p) => out.push(pb(PKind::PanicMismatch, format!("an accessor panicked: {}", crate::panic_text(&p)))),
    }
    let ev = ledger::take_events();
    if ev.iter().any(|e| !matches!(e, ledger::Ev::Clone(_) | ledger::Ev::Drop(_)) ) {
        out.push(pb(PKind::BadEvent, ev.iter().filter(|e| e.is_bad()).map(|e| e.show()).collect::<Vec<_>>().join(", ")));
    }
    drop(sut);
    out
}

pub fn c07_check<const N: usize>(o: &Opts, rep: &mut Report) {
    rep.notes.push(format!("N={} {}", N, calib::<N>().note));
    let mode = if o.thorough() && N <= 7 { KeyMode::Fine } else { KeyMode::Layout };
    // writes through every mutable accessor are transitions of the BFS itself
    let sp = {
        let mut cb = |_i: usize, st: &State, act: &Act, tr: &Trans| {
            if o.shard.0 == 0 && matches!(act, Act::WriteVia(..) | Act::MakeContiguous | Act::DrainDebug(..)) {
                account(rep, st, act, tr);
                for p in &tr.problems {
                    if matches!(p.kind, PKind::Trace | PKind::Contents | PKind::Views | PKind::PanicMismatch | PKind::Duplicate | PKind::DeadReachable) {
                        record(rep, N, &st.recipe, &[], act, None, p, "write");
                    }
                }
            }
        };
        explore::<N>(mode, &Limits::default(), &grow_alphabet, &mut cb)
    };
    for (i, st) in sp.states.iter().enumerate() {
        if !o.mine(i) {
            continue;
        }
        crate::set_case(&format!("n={}|ctor={}|recipe={}|filling=none|act=views|fault=none", N, st.recipe.ctor, st.recipe.acts_str()));
        // the Debug views of iterators and drains present the same (remaining) sequence
        let mut dbg: Vec<Act> = vec![];
        for s in Script::all_up_to(st.len.min(2)) {
            for k in 0..3 {
                dbg.push(Act::IterDebug(k, s));
                // formatter flags must reach the elements through the iterators' Debug impls too
                for f in [1usize, 2, 5] {
                    dbg.push(Act::IterDebug(f * 4 + k, s));
                }
            }
        }
        for a in 0..=st.len {
            for b in a..=st.len {
                for s in Script::all_up_to((b - a).min(2)) {
                    dbg.push(Act::DrainDebug(Rs::half_open(a, b), s));
                }
            }
        }
        for act in dbg {
            let tr = transition::<N>(&st.recipe, &[], &act, None);
            account(rep, st, &act, &tr);
            for p in &tr.problems {
                if matches!(p.kind, PKind::Trace | PKind::PanicMismatch) {
                    record(rep, N, &st.recipe, &[], &act, None, p, "debug-view");
                }
            }
        }
        let probs = c07_state::<N>(&st.recipe);
        rep.transitions += 1;
        rep.evaluations += 1;
        rep.validated += 1;
        if st.len > 0 {
            rep.nontrivial += 1;
        }
        rep.action("views-predicate");
        rep.count("accessor_calls", (idx_domain(N).len() * 19 + (st.len + 1) * (st.len + 2)) as u64);
        rep.outcomes.insert(fnv_of(&st.classes));
        let s = format!("N={} state<{}> slots[{}]: all views (get/nth_*/front/back/index/iter/range/as_slices/to_vec/Debug and their mutable twins) agree on ids and addresses", N, st.recipe.show(), st.classes);
        rep.sample(&format!("views-{}", st.len.min(3)), move || s);
        for p in probs {
            rep.violation(Violation {
                sig: format!("N={}:views:{}", N, p.kind.name()),
                detail: format!("N={} state <{}>: {}", N, st.recipe.show(), p.detail),
                replay: ReplayCase { n: N, ctor: st.recipe.ctor.to_string(), recipe: st.recipe.acts_str(), filling: "none".into(), act: "views".into(), fault: "none".into(), extra: String::new() },
            });
        }
    }
    finish_space(rep, &sp);
    if o.shard.0 == 0 {
        crate::zst::zst_twin::<N>("C07", rep);
    }
}

pub fn replay_c07<const N: usize>(c: &Case) -> Result<i32, String> {
    if c.act != "views" {
        return crate::checks::replay_generic::<N>(c, &[PKind::Trace, PKind::Contents, PKind::Views, PKind::PanicMismatch, PKind::Duplicate, PKind::DeadReachable]);
    }
    let recipe = Recipe::parse(&c.ctor, &c.recipe).ok_or("bad recipe")?;
    let probs = c07_state::<N>(&recipe);
    println!("N={} state <{}>: views predicate", N, recipe.show());
    for p in &probs {
        println!("VIOLATION REPRODUCED: [{}] {}", p.kind.name(), p.detail);
    }
    Ok(if probs.is_empty() { 0 } else { 1 })
}

// =====================================================================================  C08

#[derive(Clone, Copy, PartialEq, Eq, Hash, Debug)]
pub enum Src {
    Iter,
    IterMut,
    Range(Rs),
    RangeMut(Rs),
    IntoIter,
}
impl Src {
    fn show(&self) -> String {
        match self {
            Src::Iter => "iter".into(),
            Src::IterMut => "iter_mut".into(),
            Src::IntoIter => "into_iter".into(),
            Src::Range(r) => format!("range({},{},{},{})", r.sk, if r.a == MAXI { "M".into() } else { r.a.to_string() }, r.ek, if r.b == MAXI { "M".into() } else { r.b.to_string() }),
            Src::RangeMut(r) => format!("range_mut({},{},{},{})", r.sk, if r.a == MAXI { "M".into() } else { r.a.to_string() }, r.ek, if r.b == MAXI { "M".into() } else { r.b.to_string() }),
        }
    }
    fn parse(s: &str) -> Option<Src> {
        let num = |t: &str| -> Option<usize> { if t == "M" { Some(MAXI) } else { t.parse().ok() } };
        let rs = |inner: &str| -> Option<Rs> {
            let v: Vec<&str> = inner.split(',').collect();
            Some(Rs { sk: v.first()?.parse().ok()?, a: num(v.get(1)?)?, ek: v.get(2)?.parse().ok()?, b: num(v.get(3)?)? })
        };
        match s {
            "iter" => Some(Src::Iter),
            "iter_mut" => Some(Src::IterMut),
            "into_iter" => Some(Src::IntoIter),
            _ => {
                if let Some(r) = s.strip_prefix("range_mut(") {
                    Some(Src::RangeMut(rs(r.strip_suffix(')')?)?))
                } else if let Some(r) = s.strip_prefix("range(") {
                    Some(Src::Range(rs(r.strip_suffix(')')?)?))
                } else {
                    None
                }
            }
        }
    }
}

/// Run one script on one iterator source; at every prefix check len/size_hint, and (for `Iter`)
/// clone the iterator and drain the clone forward.  Returns problems.
pub fn c08_case<const N: usize>(recipe: &Recipe, src: Src, script: Script) -> Vec<Problem> {
    let mut out = vec![];
    let mut sut = rebuild::<N>(recipe);
    let snap = sut.snap();
    if snap.views_agree().is_err() {
        return out; // not C08's business
    }
    ledger::relabel(&snap.iter);
    let len = snap.len;
    let occ = snap.occ();
    let ids = snap.iter.clone();
    let (a, b) = match src {
        Src::Range(r) | Src::RangeMut(r) => match r.resolve(len) {
            Ok(x) => x,
            Err(()) => return out,
        },
        _ => (0, len),
    };
    // model: deque of ranks
    let mut dq: std::collections::VecDeque<usize> = (a..b).collect();
    let base = sut.base();
    let cal = sut.cal.clone();
    let slot = move |e: &E| -> usize {
        let off = (e as *const E as usize).wrapping_sub(base);
        if off < cal.items_off {
            return usize::MAX;
        }
        (off - cal.items_off) / cal.stride
    };
    let r = std::panic::catch_unwind(std::panic::AssertUnwindSafe(|| {
        let mut out: Vec<Problem> = vec![];
        macro_rules! drive {
            ($it:expr, $loc:expr, $clonable:expr) => {{
                let mut it = $it;
                let mut seen: Vec<usize> = vec![];
                for step in 0..=script.len as usize {
                    let l = it.len();
                    let h = it.size_hint();
                    if l != dq.len() || h != (dq.len(), Some(dq.len())) {
                        out.push(pb(PKind::Trace, format!("after {} step(s): len()={} size_hint()={:?}, {} element(s) remain", step, l, h, dq.len())));
                        break;
                    }
                    #[allow(unused_variables)]
                    let clonable: bool = $clonable;
                    if step == script.len as usize {
                        break;
                    }
                    let back = script.back(step);
                    let got = if back { it.next_back() } else { it.next() };
                    let want = if back { dq.pop_back() } else { dq.pop_front() };
                    let g: Option<(u32, usize)> = got.map($loc);
                    let w: Option<(u32, usize)> = want.map(|r| (ids[r], occ[r]));
                    if g != w {
                        out.push(pb(PKind::Trace, format!("step {} ({}): yielded (id,slot) {:?}, expected {:?}", step, if back { "next_back" } else { "next" }, g, w)));
                        break;
                    }
                    if let Some((_, s)) = g {
                        if seen.contains(&s) {
                            out.push(pb(PKind::Duplicate, format!("slot {} yielded twice", s)));
                        }
                        seen.push(s);
                    }
                }
            }};
        }
        match src {
            Src::Iter | Src::Range(_) => {
                let it0 = match src {
                    Src::Iter => sut.bref().iter(),
                    Src::Range(r) => sut.bref().range(r.bounds()),
                    _ => unreachable!(),
                };
                // drive with a clone check at every prefix
                let mut it = it0;
                for step in 0..=script.len as usize {
                    let l = it.len();
                    let h = it.size_hint();
                    if l != dq.len() || h != (dq.len(), Some(dq.len())) {
                        out.push(pb(PKind::Trace, format!("after {} step(s): len()={} size_hint()={:?}, {} element(s) remain", step, l, h, dq.len())));
                        break;
                    }
                    // a cloned Iter continues independently from the same point
                    let c = it.clone();
                    let got: Vec<(u32, usize)> = c.map(|e| (e.0, slot(e))).collect();
                    let want: Vec<(u32, usize)> = dq.iter().map(|r| (ids[*r], occ[*r])).collect();
                    if got != want {
                        out.push(pb(PKind::Trace, format!("clone taken after {} step(s) yields {:?}, expected {:?}", step, got, want)));
                        break;
                    }
                    let c2 = it.clone();
                    let got: Vec<(u32, usize)> = c2.rev().map(|e| (e.0, slot(e))).collect();
                    let mut want_r = want.clone();
                    want_r.reverse();
                    if got != want_r {
                        out.push(pb(PKind::Trace, format!("reversed clone taken after {} step(s) yields {:?}, expected {:?}", step, got, want_r)));
                        break;
                    }
                    if step == script.len as usize {
                        break;
                    }
                    let back = script.back(step);
                    let g = if back { it.next_back() } else { it.next() }.map(|e| (e.0, slot(e)));
                    let w = if back { dq.pop_back() } else { dq.pop_front() }.map(|r| (ids[r], occ[r]));
                    if g != w {
                        out.push(pb(PKind::Trace, format!("step {} ({}): yielded (id,slot) {:?}, expected {:?}", step, if back { "next_back" } else { "next" }, g, w)));
                        break;
                    }
                }
            }
            Src::IterMut => drive!(sut.buf().iter_mut(), |e: &mut E| (e.0, slot(e)), false),
            Src::RangeMut(r) => drive!(sut.buf().range_mut(r.bounds()), |e: &mut E| (e.0, slot(e)), false),
            Src::IntoIter => {
                let bx: Cb<N> = *sut.b.take().unwrap();
                let mut held: Vec<E> = vec![];
                {
                    let it = bx.into_iter();
                    let mut it = it;
                    for step in 0..=script.len as usize {
                        let l = it.len();
                        let h = it.size_hint();
                        if l != dq.len() || h != (dq.len(), Some(dq.len())) {
                            out.push(pb(PKind::Trace, format!("after {} step(s): len()={} size_hint()={:?}, {} element(s) remain", step, l, h, dq.len())));
                            break;
                        }
                        if step == script.len as usize {
                            break;
                        }
                        let back = script.back(step);
                        let got = if back { it.next_back() } else { it.next() };
                        let want = if back { dq.pop_back() } else { dq.pop_front() };
                        let g = got.as_ref().map(|e| e.0);
                        let w = want.map(|r| ids[r]);
                        if let Some(e) = got {
                            held.push(e);
                        }
                        if g != w {
                            out.push(pb(PKind::Trace, format!("step {} ({}): yielded id {:?}, expected {:?}", step, if back { "next_back" } else { "next" }, g, w)));
                            break;
                        }
                    }
                }
                drop(held);
            }
        }
        out
    }));
    match r {
        Ok(v) => out.extend(v),
        Err(p) => out.push(pb(PKind::PanicMismatch, format!("iterator panicked: {}", crate::panic_text(&p)))),
    }
    let ev = ledger::take_events();
    if ev.iter().any(|e| e.is_bad()) {
        out.push(pb(PKind::BadEvent, ev.iter().filter(|e| e.is_bad()).map(|e| e.show()).collect::<Vec<_>>().join(", ")));
    }
    drop(sut);
    out
}

pub fn c08_check<const N: usize>(o: &Opts, rep: &mut Report) {
    rep.notes.push(format!("N={} {}", N, calib::<N>().note));
    if N == 0 && o.shard.0 == 0 {
        // the protocol at capacities where position arithmetic exceeds the machine word (zero-sized elements)
        let (probs, cases) = crate::c19::huge_iter_probes();
        rep.transitions += cases;
        rep.validated += cases;
        rep.evaluations += cases;
        rep.count("huge_capacity_iterator_cases", cases);
        for p in probs {
            let what = p.split(':').next().unwrap_or("").to_string();
            rep.violation(Violation {
                sig: format!("huge-capacity:{}:protocol", what.replace(' ', "_")),
                detail: p,
                replay: ReplayCase { n: 0, ctor: "new".into(), recipe: "0,0".into(), filling: "none".into(), act: "huge-iter".into(), fault: "none".into(), extra: String::new() },
            });
        }
    }
    let sp = layout_space::<N>();
    // default-constructed iterators are empty
    {
        let mut it: circular_buffer::Iter<'static, E> = Default::default();
        let mut im: circular_buffer::IterMut<'static, E> = Default::default();
        rep.transitions += 2;
        rep.validated += 2;
        rep.evaluations += 2;
        if it.len() != 0 || it.next().is_some() || it.next_back().is_some() || it.size_hint() != (0, Some(0)) {
            rep.violation(Violation { sig: format!("N={}:iter-default:trace", N), detail: "Iter::default() is not empty".into(), replay: ReplayCase { n: N, ctor: "boxed".into(), recipe: "".into(), filling: "none".into(), act: "iter-default".into(), fault: "none".into(), extra: "".into() } });
        }
        if im.len() != 0 || im.next().is_some() || im.next_back().is_some() || im.size_hint() != (0, Some(0)) {
            rep.violation(Violation { sig: format!("N={}:iter-mut-default:trace", N), detail: "IterMut::default() is not empty".into(), replay: ReplayCase { n: N, ctor: "boxed".into(), recipe: "".into(), filling: "none".into(), act: "iter-default".into(), fault: "none".into(), extra: "".into() } });
        }
    }
    for (i, st) in sp.states.iter().enumerate() {
        if !o.mine(i) {
            continue;
        }
        let mut srcs = vec![Src::Iter, Src::IterMut, Src::IntoIter];
        for rs in all_ranges(N) {
            if rs.resolve(st.len).is_ok() {
                srcs.push(Src::Range(rs));
                srcs.push(Src::RangeMut(rs));
            }
        }
        for src in srcs {
            let l = match src {
                Src::Range(r) | Src::RangeMut(r) => r.resolve(st.len).map(|(a, b)| b - a).unwrap_or(0),
                _ => st.len,
            };
            for script in Script::all_of_len(l + 2) {
                crate::set_case(&format!("n={}|ctor={}|recipe={}|filling=none|act={}|fault=none|extra={},{}", N, st.recipe.ctor, st.recipe.acts_str(), src.show(), script.bits, script.len));
                let probs = c08_case::<N>(&st.recipe, src, script);
                rep.transitions += 1;
                rep.evaluations += 1;
                rep.validated += 1;
                if l > 0 {
                    rep.nontrivial += 1;
                }
                let name = match src {
                    Src::Iter => "iter",
                    Src::IterMut => "iter_mut",
                    Src::IntoIter => "into_iter",
                    Src::Range(_) => "range",
                    Src::RangeMut(_) => "range_mut",
                };
                rep.action(name);
                rep.outcomes.insert(fnv_of(&(name, l, script.bits)));
                let s = format!("N={} state<{}> {} script {:0w$b} (bit i set = next_back at step i): every step's item, address, len(), size_hint() and clones at every prefix match the model", N, st.recipe.show(), src.show(), script.bits, w = script.len as usize);
                rep.sample(&format!("{}-{}", name, l.min(2)), move || s);
                for p in probs {
                    rep.violation(Violation {
                        sig: format!("N={}:{}:{}", N, name, p.kind.name()),
                        detail: format!("N={} state <{}> {} script bits={:b} len={}: {}", N, st.recipe.show(), src.show(), script.bits, script.len, p.detail),
                        replay: ReplayCase { n: N, ctor: st.recipe.ctor.to_string(), recipe: st.recipe.acts_str(), filling: "none".into(), act: src.show(), fault: "none".into(), extra: format!("{},{}", script.bits, script.len) },
                    });
                }
            }
        }
    }
    // the same sources driven through nth / nth_back as well (an override of those is part of the protocol),
    // and clone_from between two owning iterators
    for (i, st) in sp.states.iter().enumerate() {
        if !o.mine(i) {
            continue;
        }
        let mut acts = steps_probes(N, st.len, &[0, 1, 2, 3, 4], 3);
        for a in 0..=st.len.min(2) {
            for mm in 0..=N.min(6) {
                for b in 0..=mm.min(2) {
                    acts.push(Act::IntoIterCloneFrom(a, mm, b));
                }
            }
        }
        for act in acts {
            let tr = transition::<N>(&st.recipe, &[], &act, None);
            account(rep, st, &act, &tr);
            for p in tr.problems.iter().filter(|p| matches!(p.kind, PKind::Trace | PKind::PanicMismatch | PKind::Contents | PKind::Views)) {
                record(rep, N, &st.recipe, &[], &act, None, p, "");
            }
        }
    }
    finish_space(rep, &sp);
}

pub fn replay_c08<const N: usize>(c: &Case) -> Result<i32, String> {
    if c.act.starts_with("steps(") || c.act.starts_with("into_iter_clone_from(") {
        return crate::checks::replay_generic::<N>(c, &[PKind::Trace, PKind::PanicMismatch, PKind::Contents, PKind::Views]);
    }
    let recipe = Recipe::parse(&c.ctor, &c.recipe).ok_or("bad recipe")?;
    if c.act == "iter-default" {
        let mut it: circular_buffer::Iter<'static, E> = Default::default();
        let bad = it.len() != 0 || it.next().is_some();
        println!("Iter::default(): {}", if bad { "VIOLATION REPRODUCED: not empty" } else { "empty" });
        return Ok(bad as i32);
    }
    let src = Src::parse(&c.act).ok_or("bad iterator source")?;
    let (bits, len) = c.extra.split_once(',').ok_or("bad script")?;
    let script = Script { bits: bits.parse().map_err(|_| "bad script")?, len: len.parse().map_err(|_| "bad script")? };
    let probs = c08_case::<N>(&recipe, src, script);
    println!("N={} state <{}> {} script bits={:b} len={}", N, recipe.show(), src.show(), script.bits, script.len);
    for p in &probs {
        println!("VIOLATION REPRODUCED: [{}] {}", p.kind.name(), p.detail);
    }
    Ok(if probs.is_empty() { 0 } else { 1 })
}

// =====================================================================================  C09

/// every (start bound, end bound) form that denotes the half-open range a..b in a buffer of length len
pub fn shapes_of(a: usize, b: usize, len: usize) -> Vec<Rs> {
    let mut starts = vec![(0u8, a)];
    if a >= 1 {
        starts.push((1, a - 1));
    }
    if a == 0 {
        starts.push((2, 0));
    }
    let mut ends = vec![(1u8, b)];
    if b >= 1 {
        ends.push((0, b - 1));
    }
    if b == len {
        ends.push((2, 0));
    }
    let mut v = vec![];
    for &(sk, x) in &starts {
        for &(ek, y) in &ends {
            v.push(Rs { sk, a: x, ek, b: y });
        }
    }
    v
}

const C09_KINDS: [PKind; 8] = [PKind::Trace, PKind::Contents, PKind::Views, PKind::PanicMismatch, PKind::BadEvent, PKind::Leak, PKind::DeadReachable, PKind::Duplicate];

pub fn c09_check<const N: usize>(o: &Opts, rep: &mut Report) {
    rep.notes.push(format!("N={} {}", N, calib::<N>().note));
    let mode = if o.thorough() && N <= 6 { KeyMode::Fine } else { KeyMode::Layout };
    let sp = {
        let mut cb = |_i: usize, _st: &State, _a: &Act, _t: &Trans| {};
        explore::<N>(mode, &Limits::default(), &grow_alphabet, &mut cb)
    };
    for (i, st) in sp.states.iter().enumerate() {
        if !o.mine(i) {
            continue;
        }
        let mut views_ok: Option<bool> = None;
        for a in 0..=st.len {
            for b in a..=st.len {
                for (k, rs) in shapes_of(a, b, st.len).into_iter().enumerate() {
                    let scripts: Vec<Script> = if k == 0 && N <= 8 {
                        Script::all_up_to(b - a + 1)
                    } else if k == 0 {
                        let mut v = Script::all_up_to((b - a).min(4));
                        v.extend([Script::all_front(b - a + 1), Script::all_back(b - a + 1), Script::alternating(b - a + 1, 0), Script::alternating(b - a + 1, 1)]);
                        v
                    } else {
                        vec![Script::empty(), Script::all_front(b - a + 1), Script::all_back(b - a + 1)]
                    };
                    let mut acts: Vec<Act> = scripts.iter().map(|s| Act::Drain(rs, *s, Fin::Drop)).collect();
                    if k == 0 {
                        for st in Steps::all_up_to(if N > 8 { 2 } else { 3 }) {
                            acts.push(Act::StepsOn(5, rs, st));
                        }
                        acts.extend(Script::all_up_to((b - a).min(if N > 8 { 3 } else { usize::MAX })).into_iter().map(|s| Act::DrainDebug(rs, s)));
                    }
                    for act in acts {
                        let s = match act {
                            Act::Drain(_, s, _) | Act::DrainDebug(_, s) => s,
                            _ => Script::empty(),
                        };
                        let tr = transition::<N>(&st.recipe, &[], &act, None);
                        account(rep, st, &act, &tr);
                        for p in tr.problems.iter().filter(|p| C09_KINDS.contains(&p.kind)) {
                            record(rep, N, &st.recipe, &[], &act, None, p, "");
                        }
                        for p in tr.final_problems.iter().filter(|p| matches!(p.kind, PKind::BadEvent | PKind::Leak | PKind::PanicMismatch)) {
                            record(rep, N, &st.recipe, &[], &act, None, p, "final-drop");
                        }
                        // the drained range really was removed *from the storage discipline*: C07's predicate on the result
                        // (only where the views of the state *before* the drain are sound: a view bug that exists
                        // without any drain is C07's business, not C09's)
                        if tr.problems.is_empty() && s.len == 0 && k == 0 && matches!(act, Act::Drain(..)) && *views_ok.get_or_insert_with(|| c07_state::<N>(&st.recipe).is_empty()) {
                            let mut r2 = st.recipe.clone();
                            r2.acts.push(act);
                            for p in c07_state::<N>(&r2) {
                                record(rep, N, &st.recipe, &[], &act, None, &pb(p.kind, format!("state after the drain: {}", p.detail)), "views-after");
                            }
                        }
                    }
                }
            }
        }
    }
    finish_space(rep, &sp);
    if o.shard.0 == 0 {
        crate::zst::zst_twin::<N>("C09", rep);
    }
}

// =====================================================================================  C12

pub fn c12_check<const N: usize>(o: &Opts, rep: &mut Report) {
    rep.notes.push(format!("N={} {}", N, calib::<N>().note));
    if o.shard.0 == 0 {
        ctor_checks::<N>("C12", rep);
    }
    let sp = layout_space::<N>();
    let kinds = [PKind::Trace, PKind::Contents, PKind::Views, PKind::PanicMismatch, PKind::BadEvent, PKind::Leak, PKind::DeadReachable, PKind::Duplicate];
    for (i, st) in sp.states.iter().enumerate() {
        if !o.mine(i) {
            continue;
        }
        let mut acts = vec![Act::CloneBuf, Act::ToVec, Act::IntoIter(Script::all_front(st.len + 1)), Act::IntoIter(Script::all_back(st.len + 1))];
        for s in Script::all_up_to(st.len.min(3)) {
            acts.push(Act::IntoIterClone(s));
        }
        for mm in 0..=N {
            for rot in [0, N.saturating_sub(1)] {
                acts.push(Act::ExtendFromBuf(mm, rot));
            }
            for a in 0..=st.len.min(2) {
                for b in 0..=mm.min(2) {
                    acts.push(Act::IntoIterCloneFrom(a, mm, b));
                }
            }
        }
        // clone_from: every destination state x every source layout
        for m in 0..=N {
            for rot in 0..N.max(1) {
                acts.push(Act::CloneFrom(m, rot));
            }
        }
        for act in acts {
            let tr = transition::<N>(&st.recipe, &[], &act, None);
            account(rep, st, &act, &tr);
            for p in tr.problems.iter().filter(|p| kinds.contains(&p.kind)) {
                record(rep, N, &st.recipe, &[], &act, None, p, "");
            }
            for p in tr.final_problems.iter() {
                record(rep, N, &st.recipe, &[], &act, None, p, "final-drop");
            }
            // the source must be left untouched (memory image, not just contents)
            if !tr.rec.panicked && matches!(act, Act::CloneBuf | Act::ToVec) && key_fine(&tr.rec.pre) != key_fine(&tr.rec.post) {
                record(rep, N, &st.recipe, &[], &act, None, &pb(PKind::ImageChanged, "cloning changed the source buffer's memory image".into()), "");
            }
        }
        // independence of ownership: drop the ORIGINAL first, the clone must stay fully alive
        for p in c12_independence::<N>(&st.recipe) {
            record(rep, N, &st.recipe, &[], &Act::CloneBuf, None, &p, "independence");
        }
        rep.transitions += 1;
        rep.validated += 1;
        rep.evaluations += 1;
    }
    finish_space(rep, &sp);
    if N <= 8 {
        crate::faults::destroyed_twice_space::<N>("C12", &sp, o, rep, &|a| matches!(a, Act::ExtendFromBuf(..) | Act::IntoIter(..) | Act::IntoIterCloneFrom(..) | Act::CloneFrom(..) | Act::Extend(..)));
    }
    if o.shard.0 == 0 {
        crate::zst::zst_twin::<N>("C12", rep);
    }
}

pub fn c12_independence<const N: usize>(recipe: &Recipe) -> Vec<Problem> {
    let mut out = vec![];
    let sut = rebuild::<N>(recipe);
    let ids0 = sut.ids();
    ledger::relabel(&ids0);
    let r = std::panic::catch_unwind(std::panic::AssertUnwindSafe(|| {
        let mut out = vec![];
        let c: Cb<N> = sut.bref().clone();
        let mut cl = Sut { b: Some(Box::new(c)), cal: sut.cal.clone() };
        let cids = cl.ids();
        if cids.iter().any(|id| ids0.contains(id)) {
            out.push(pb(PKind::Duplicate, "the clone shares an element with its source".into()));
        }
        drop(sut);
        if let Some(id) = cids.iter().find(|id| !ledger::is_live(**id)) {
            out.push(pb(PKind::DeadReachable, format!("dropping the source destroyed element id {} of the clone", id)));
        }
        let tags: Vec<Tag> = cids.iter().map(|id| tag_of(*id)).collect();
        let want: Vec<Tag> = (0..ids0.len()).map(|r| ledger::t_c(ledger::t_r(r))).collect();
        if tags != want {
            out.push(pb(PKind::Contents, format!("clone contents {} expected {}", model::show_tags(&tags), model::show_tags(&want))));
        }
        // the clone keeps working
        let mut keep: Hold<N> = Hold::default();
        for a in [Act::PushBack, Act::PopFront, Act::Remove(0), Act::Clear] {
            let r = exec_step(&mut cl, &a, None, &mut keep);
            let exp = model::expect(N, r.pre.len, &a);
            for p in judge(&r, &exp) {
                out.push(pb(p.kind, format!("on the clone after its source was dropped, {}: {}", a, p.detail)));
            }
            keep.elems.clear();
        }
        out.extend(final_drop(cl, keep));
        out
    }));
    match r {
        Ok(v) => out.extend(v),
        Err(p) => out.push(pb(PKind::PanicMismatch, format!("panicked: {}", crate::panic_text(&p)))),
    }
    let _ = tag_str(0);
    out
}

pub fn replay_c12<const N: usize>(c: &Case) -> Result<i32, String> {
    if c.fault != "none" && !c.fault.is_empty() {
        let c5 = Case { prop: "C05".into(), n: c.n, ctor: c.ctor.clone(), recipe: c.recipe.clone(), filling: c.filling.clone(), act: c.act.clone(), fault: c.fault.clone(), extra: c.extra.clone() };
        return crate::faults::replay_fault::<N>(&c5);
    }
    if c.act == "ctor-only" {
        return crate::checks::replay_bfs::<N>(c);
    }
    let recipe = Recipe::parse(&c.ctor, &c.recipe).ok_or("bad recipe")?;
    let mut code = crate::checks::replay_generic::<N>(c, &[PKind::Trace, PKind::Contents, PKind::Views, PKind::PanicMismatch, PKind::BadEvent, PKind::Leak, PKind::DeadReachable, PKind::Duplicate])?;
    if c.act == "clone" {
        for p in c12_independence::<N>(&recipe) {
            println!("VIOLATION REPRODUCED: [{}@independence] {}", p.kind.name(), p.detail);
            code = 1;
        }
    }
    Ok(code)
}
