//! C13: Eq / Ord / Hash / Debug depend only on the logical contents (DESIGN §4 C13).
//!
//! Value-carrying elements, no relabelling: all pairs of (capacity, layout, contents) over a small
//! alphabet, so that every split of the left operand's two physical segments meets every split of
//! the right operand's.

use crate::checks::{Case, Opts};
use crate::exec::{boundary_hash_of, fnv_of};
use crate::model::{fmt_with, N_FMTS};
use crate::report::*;
use circular_buffer::CircularBuffer;
use std::cmp::Ordering;

/// 0 < 1, and 2 is NaN-like: unequal to everything (itself included) and incomparable.
#[derive(Clone, Copy, Debug)]
pub struct Vp(pub u8);
#[derive(Clone, Copy, Debug)]
pub struct Wp(pub u8);

fn veq(a: u8, b: u8) -> bool {
    a != 2 && b != 2 && a == b
}
fn vcmp(a: u8, b: u8) -> Option<Ordering> {
    if a == 2 || b == 2 {
        None
    } else {
        a.partial_cmp(&b)
    }
}
impl PartialEq for Vp {
    fn eq(&self, o: &Vp) -> bool {
        veq(self.0, o.0)
    }
}
impl PartialEq<Wp> for Vp {
    fn eq(&self, o: &Wp) -> bool {
        veq(self.0, o.0)
    }
}
impl PartialOrd for Vp {
    fn partial_cmp(&self, o: &Vp) -> Option<Ordering> {
        vcmp(self.0, o.0)
    }
}
impl PartialOrd<Wp> for Vp {
    fn partial_cmp(&self, o: &Wp) -> Option<Ordering> {
        vcmp(self.0, o.0)
    }
}

/// Zero-sized elements whose comparison is NOT trivially true: `Zn` is never equal to anything (like
/// SQL NULL), `Zl == Zr` is false, `Zo` is an ordinary always-equal unit.
#[derive(Clone, Copy, Debug)]
pub struct Zn;
impl PartialEq for Zn {
    fn eq(&self, _: &Zn) -> bool {
        false
    }
}
impl PartialOrd for Zn {
    fn partial_cmp(&self, _: &Zn) -> Option<Ordering> {
        None
    }
}
#[derive(Clone, Copy, Debug)]
pub struct Zl;
#[derive(Clone, Copy, Debug)]
pub struct Zr;
impl PartialEq<Zr> for Zl {
    fn eq(&self, _: &Zr) -> bool {
        false
    }
}
impl PartialOrd<Zr> for Zl {
    fn partial_cmp(&self, _: &Zr) -> Option<Ordering> {
        Some(Ordering::Less)
    }
}
#[derive(Clone, Copy, Debug, PartialEq, PartialOrd)]
pub struct Zo;

fn zbuild<const N: usize, T: Copy>(rot: usize, len: usize, x: T) -> CircularBuffer<N, T> {
    let mut b = CircularBuffer::<N, T>::new();
    if N > 0 {
        for _ in 0..rot % N {
            b.push_back(x);
            b.pop_front();
        }
    }
    for _ in 0..len.min(N) {
        b.push_back(x);
    }
    b
}

/// comparisons between buffers of zero-sized elements must still follow the elements' own comparison
pub fn zst_compare_case<const N: usize, const M: usize>(la: usize, ra: usize, lb: usize, rb: usize) -> Vec<String> {
    let mut probs = vec![];
    let (la, lb) = (la.min(N), lb.min(M));
    // never-equal elements: equal only if both empty
    let a: CircularBuffer<N, Zn> = zbuild(ra, la, Zn);
    let b: CircularBuffer<M, Zn> = zbuild(rb, lb, Zn);
    let va = vec![Zn; la];
    let vb = vec![Zn; lb];
    if (a == b) != (va == vb) || (a != b) == (va == vb) {
        probs.push(format!("never-equal zero-sized elements: buffers compare {} but slices compare {}", a == b, va == vb));
    }
    if (a == vb[..]) != (va == vb) {
        probs.push("never-equal zero-sized elements: buffer == slice differs from slice == slice".to_string());
    }
    if a.partial_cmp(&b) != va.partial_cmp(&vb) {
        probs.push(format!("incomparable zero-sized elements: partial_cmp gives {:?}, slices give {:?}", a.partial_cmp(&b), va.partial_cmp(&vb)));
    }
    // cross-type
    let l: CircularBuffer<N, Zl> = zbuild(ra, la, Zl);
    let r: CircularBuffer<M, Zr> = zbuild(rb, lb, Zr);
    let want = la == 0 && lb == 0;
    if (l == r) != want {
        probs.push(format!("zero-sized Zl == Zr is always false, but buffers of lengths {} and {} compare {}", la, lb, l == r));
    }
    let want_ord = if la == 0 && lb == 0 { Some(Ordering::Equal) } else if la == 0 { Some(Ordering::Less) } else if lb == 0 { Some(Ordering::Greater) } else { Some(Ordering::Less) };
    if l.partial_cmp(&r) != want_ord {
        probs.push(format!("zero-sized Zl < Zr always, but buffers of lengths {} and {} give {:?}", la, lb, l.partial_cmp(&r)));
    }
    // ordinary always-equal unit: equal iff same length
    let x: CircularBuffer<N, Zo> = zbuild(ra, la, Zo);
    let y: CircularBuffer<M, Zo> = zbuild(rb, lb, Zo);
    if (x == y) != (la == lb) || x.partial_cmp(&y) != la.partial_cmp(&lb) {
        probs.push(format!("unit elements: lengths {} and {} give == {} and {:?}", la, lb, x == y, x.partial_cmp(&y)));
    }
    probs
}

/// reference: lexicographic comparison of two sequences under a partial order
fn lex(a: &[u8], b: &[u8]) -> Option<Ordering> {
    for i in 0..a.len().min(b.len()) {
        match vcmp(a[i], b[i]) {
            Some(Ordering::Equal) => {}
            other => return other,
        }
    }
    a.len().partial_cmp(&b.len())
}
fn seq_eq(a: &[u8], b: &[u8]) -> bool {
    a.len() == b.len() && a.iter().zip(b.iter()).all(|(x, y)| veq(*x, *y))
}

/// all sequences over {0..alpha} of length 0..=n
pub fn all_contents(n: usize, alpha: u8) -> Vec<Vec<u8>> {
    let mut out = vec![vec![]];
    let mut cur: Vec<Vec<u8>> = vec![vec![]];
    for _ in 0..n {
        let mut next = vec![];
        for c in &cur {
            for x in 0..alpha {
                let mut d = c.clone();
                d.push(x);
                next.push(d);
            }
        }
        out.extend(next.iter().cloned());
        cur = next;
    }
    out
}

/// Build a buffer whose front sits `rot` pushes into the array (layout is observed, not assumed).
pub fn build<const N: usize, T: Copy>(rot: usize, contents: &[u8], mk: fn(u8) -> T) -> CircularBuffer<N, T> {
    let mut b = CircularBuffer::<N, T>::new();
    if N > 0 {
        for _ in 0..rot % N {
            b.push_back(mk(0));
            b.pop_front();
        }
    }
    for c in contents {
        b.push_back(mk(*c));
    }
    b
}

#[derive(Clone)]
pub struct Operand {
    pub rot: usize,
    pub contents: Vec<u8>,
}
impl Operand {
    fn show(&self) -> String {
        format!("{}:{}", self.rot, self.contents.iter().map(|c| c.to_string()).collect::<String>())
    }
    fn parse(s: &str) -> Option<Operand> {
        let (r, c) = s.split_once(':')?;
        Some(Operand {
            rot: r.parse().ok()?,
            contents: c.chars().map(|ch| ch.to_digit(10).map(|d| d as u8)).collect::<Option<Vec<u8>>>()?,
        })
    }
}

pub fn operands(n: usize, alpha: u8) -> Vec<Operand> {
    let mut v = vec![];
    for c in all_contents(n, alpha) {
        for rot in 0..n.max(1) {
            v.push(Operand { rot, contents: c.clone() });
        }
    }
    v
}

macro_rules! array_forms {
    ($a:expr, $bv:expr, $want:expr, $probs:expr; $($k:literal)*) => {
        match $bv.len() {
            $($k => {
                let mut arr: [Wp; $k] = core::array::from_fn(|i| $bv[i]);
                if ($a == arr) != $want { $probs.push(format!("== [U; {}] gives {}", $k, !$want)); }
                if ($a == &arr) != $want { $probs.push(format!("== &[U; {}] gives {}", $k, !$want)); }
                if ($a == &mut arr) != $want { $probs.push(format!("== &mut [U; {}] gives {}", $k, !$want)); }
            })*
            _ => {}
        }
    };
}

/// all judgements about one ordered pair; returns textual problems
pub fn pair_case<const N: usize, const M: usize>(l: &Operand, r: &Operand) -> Vec<String> {
    let mut probs: Vec<String> = vec![];
    let res = std::panic::catch_unwind(|| {
        let mut probs: Vec<String> = vec![];
        let a: CircularBuffer<N, Vp> = build(l.rot, &l.contents, Vp);
        let b: CircularBuffer<M, Vp> = build(r.rot, &r.contents, Vp);
        let bw: CircularBuffer<M, Wp> = build(r.rot, &r.contents, Wp);
        let want_eq = seq_eq(&l.contents, &r.contents);
        let want_ord = lex(&l.contents, &r.contents);
        if (a == b) != want_eq {
            probs.push(format!("a == b gives {}, sequences are {}", a == b, if want_eq { "equal" } else { "different" }));
        }
        if (a != b) == want_eq {
            probs.push(format!("a != b gives {}", a != b));
        }
        if (a == bw) != want_eq {
            probs.push(format!("cross-type a == b gives {}", a == bw));
        }
        if a.partial_cmp(&b) != want_ord {
            probs.push(format!("partial_cmp gives {:?}, lexicographic order is {:?}", a.partial_cmp(&b), want_ord));
        }
        if a.partial_cmp(&bw) != want_ord {
            probs.push(format!("cross-type partial_cmp gives {:?}, lexicographic order is {:?}", a.partial_cmp(&bw), want_ord));
        }
        if (a < b) != (want_ord == Some(Ordering::Less)) || (a >= b) != matches!(want_ord, Some(Ordering::Greater | Ordering::Equal)) {
            probs.push("operators < / >= disagree with the lexicographic order".to_string());
        }
        if (a > b) != (want_ord == Some(Ordering::Greater)) || (a <= b) != matches!(want_ord, Some(Ordering::Less | Ordering::Equal)) {
            probs.push("operators > / <= disagree with the lexicographic order".to_string());
        }
        if (a > bw) != (want_ord == Some(Ordering::Greater)) || (a <= bw) != matches!(want_ord, Some(Ordering::Less | Ordering::Equal)) || (a < bw) != (want_ord == Some(Ordering::Less)) || (a >= bw) != matches!(want_ord, Some(Ordering::Greater | Ordering::Equal)) {
            probs.push("cross-type operators < <= > >= disagree with the lexicographic order".to_string());
        }
        // slice / array / reference forms
        let mut bv: Vec<Wp> = r.contents.iter().map(|c| Wp(*c)).collect();
        if (a == bv[..]) != want_eq {
            probs.push(format!("== [U] gives {}", a == bv[..]));
        }
        if (a == &bv[..]) != want_eq {
            probs.push(format!("== &[U] gives {}", a == &bv[..]));
        }
        if (a == &mut bv[..]) != want_eq {
            probs.push(format!("== &mut [U] gives {}", a == &mut bv[..]));
        }
        array_forms!(a, bv, want_eq, probs; 0 1 2 3 4 5 6 7);
        // total order + hash on plain bytes (alphabet without the NaN-like value)
        if l.contents.iter().all(|c| *c < 2) && r.contents.iter().all(|c| *c < 2) {
            let ua: CircularBuffer<N, u8> = build(l.rot, &l.contents, |c| c);
            let ub: CircularBuffer<M, u8> = build(r.rot, &r.contents, |c| c);
            if N == M {
                // same capacity: Ord and Hash are defined between them
                let ub2: CircularBuffer<N, u8> = build(r.rot, &r.contents, |c| c);
                if ua.cmp(&ub2) != l.contents.cmp(&r.contents) {
                    probs.push(format!("cmp gives {:?}, slices give {:?}", ua.cmp(&ub2), l.contents.cmp(&r.contents)));
                }
                if l.contents == r.contents && fnv_of(&ua) != fnv_of(&ub2) {
                    probs.push("equal buffers of the same capacity hash differently".to_string());
                }
                if l.contents == r.contents && boundary_hash_of(&ua) != boundary_hash_of(&ub2) {
                    probs.push("equal buffers of the same capacity hash differently under a hasher that is sensitive to write-call boundaries".to_string());
                }
                // wider integer elements take other `hash_slice` paths
                if l.contents == r.contents {
                    let wa: CircularBuffer<N, u32> = build(l.rot, &l.contents, |c| c as u32);
                    let wb: CircularBuffer<N, u32> = build(r.rot, &r.contents, |c| c as u32);
                    if boundary_hash_of(&wa) != boundary_hash_of(&wb) || fnv_of(&wa) != fnv_of(&wb) {
                        probs.push("equal u32 buffers of the same capacity hash differently".to_string());
                    }
                }
            }
            if (ua == ub) != (l.contents == r.contents) {
                probs.push(format!("u8 buffers: == gives {}", ua == ub));
            }
            if ua.partial_cmp(&ub) != l.contents.partial_cmp(&r.contents) {
                probs.push(format!("u8 buffers: partial_cmp gives {:?}", ua.partial_cmp(&ub)));
            }
        }
        probs
    });
    match res {
        Ok(p) => probs.extend(p),
        Err(p) => probs.push(format!("comparison panicked: {}", crate::panic_text(&p))),
    }
    probs
}

/// Debug under every formatter flag equals the slice's, for one operand
pub fn debug_case<const N: usize>(l: &Operand) -> Vec<String> {
    let mut probs = vec![];
    // comparing a buffer with ITSELF must still depend on the contents only (NaN-like elements are
    // unequal to themselves, so a buffer holding one is unequal to itself, like the slice is)
    {
        let a: CircularBuffer<N, Vp> = build(l.rot, &l.contents, Vp);
        let v: Vec<Vp> = l.contents.iter().map(|c| Vp(*c)).collect();
        #[allow(clippy::eq_op)]
        let (s_eq, s_ord) = (v[..] == v[..], v[..].partial_cmp(&v[..]));
        #[allow(clippy::eq_op)]
        if (a == a) != s_eq || (a != a) == s_eq {
            probs.push(format!("a == a gives {}, the slice compared with itself gives {}", a == a, s_eq));
        }
        if a.partial_cmp(&a) != s_ord {
            probs.push(format!("a.partial_cmp(&a) gives {:?}, the slice gives {:?}", a.partial_cmp(&a), s_ord));
        }
        let r: &CircularBuffer<N, Vp> = &a;
        if (*r == a) != s_eq {
            probs.push("comparison through a second reference to the same buffer differs".to_string());
        }
    }
    if l.contents.iter().any(|c| *c >= 2) {
        return probs;
    }
    let ua: CircularBuffer<N, u8> = build(l.rot, &l.contents, |c| c);
    for k in 0..N_FMTS {
        let got = fmt_with(&ua, k);
        let want = fmt_with(&l.contents[..], k);
        if got != want {
            probs.push(format!("Debug format #{} gives {:?}, the slice gives {:?}", k, got, want));
        }
    }
    // and the iterators' Debug
    let got = format!("{:?}", ua.iter());
    let want = format!("{:?}", &l.contents[..]);
    if got != want {
        probs.push(format!("Iter's Debug gives {:?}, the slice gives {:?}", got, want));
    }
    probs
}

fn alpha_for(_n: usize, _thorough: bool) -> u8 {
    3
}

fn observed_layouts<const N: usize>(ops: &[Operand]) -> usize {
    let mut seen = std::collections::BTreeSet::new();
    for o in ops {
        let b: CircularBuffer<N, u8> = build(o.rot, &o.contents, |c| c);
        let base = &b as *const CircularBuffer<N, u8> as usize;
        let front = b.front().map(|e| e as *const u8 as usize - base).unwrap_or(0);
        seen.insert((front, b.len()));
    }
    seen.len()
}

pub fn run_pairs<const N: usize, const M: usize>(o: &Opts, rep: &mut Report) {
    let th = o.thorough();
    let alpha = alpha_for(N.max(M), th);
    let ls = operands(N, alpha);
    let rs = operands(M, alpha);
    rep.count("left_operands", ls.len() as u64);
    for (i, l) in ls.iter().enumerate() {
        if !o.mine(i) {
            continue;
        }
        crate::set_case(&format!("n={}|ctor=boxed|recipe=|filling=none|act=pair|fault=none|extra={}|{}|*", N, M, l.show()));
        for r in &rs {
            let probs = pair_case::<N, M>(l, r);
            rep.transitions += 1;
            rep.evaluations += 1;
            rep.validated += 1;
            rep.outcomes.insert(fnv_of(&(N, M, seq_eq(&l.contents, &r.contents), lex(&l.contents, &r.contents).map(|o| o as i8), l.contents.len().min(2), r.contents.len().min(2))));
            if !l.contents.is_empty() && !r.contents.is_empty() {
                rep.nontrivial += 1;
            }
            for p in probs {
                let kind = p.split(' ').take(2).collect::<Vec<_>>().join("_");
                rep.violation(Violation {
                    sig: format!("N={}:M={}:compare:{}", N, M, kind),
                    detail: format!("N={} M={} left(rot:contents)={} right={}: {}", N, M, l.show(), r.show(), p),
                    replay: ReplayCase { n: N, ctor: "boxed".into(), recipe: "".into(), filling: "none".into(), act: "pair".into(), fault: "none".into(), extra: format!("{}|{}|{}", M, l.show(), r.show()) },
                });
            }
        }
    }
    if o.shard.0 == 0 {
        for la in 0..=N {
            for lb in 0..=M {
                for ra in 0..N.max(1) {
                    for rb in 0..M.max(1) {
                        let probs = zst_compare_case::<N, M>(la, ra, lb, rb);
                        rep.transitions += 1;
                        rep.evaluations += 1;
                        rep.validated += 1;
                        for p in probs {
                            rep.violation(Violation {
                                sig: format!("N={}:M={}:zst-compare:{}", N, M, p.split(':').next().unwrap_or("").replace(' ', "_")),
                                detail: format!("N={} M={} zero-sized elements, lengths {} / {}, rotations {} / {}: {}", N, M, la, lb, ra, rb, p),
                                replay: ReplayCase { n: N, ctor: "boxed".into(), recipe: "".into(), filling: "none".into(), act: "zst-pair".into(), fault: "none".into(), extra: format!("{}|{}|{}|{}|{}", M, la, ra, lb, rb) },
                            });
                        }
                    }
                }
            }
        }
    }
    rep.action(&format!("pairs-{}x{}", N, M));
    if let (Some(l), Some(r)) = (ls.last(), rs.get(rs.len() / 2)) {
        let s = format!(
            "N={} M={} left(rot:contents)={} right={}: ==, !=, cross-type ==, partial_cmp, <, >=, 3 slice forms, 3 array forms, (u8: cmp, hash, ==) all agree with the slices: eq={} ord={:?}",
            N, M, l.show(), r.show(), seq_eq(&l.contents, &r.contents), lex(&l.contents, &r.contents)
        );
        rep.sample(&format!("pair-{}x{}", N, M), move || s);
    }
}

macro_rules! with_m {
    ($m:expr, $n:literal, $o:expr, $rep:expr) => {
        match $m {
            0 => run_pairs::<$n, 0>($o, $rep),
            1 => run_pairs::<$n, 1>($o, $rep),
            2 => run_pairs::<$n, 2>($o, $rep),
            3 => run_pairs::<$n, 3>($o, $rep),
            4 => run_pairs::<$n, 4>($o, $rep),
            5 => run_pairs::<$n, 5>($o, $rep),
            6 => run_pairs::<$n, 6>($o, $rep),
            _ => panic!("unsupported M"),
        }
    };
}

pub fn c13_check(n: usize, o: &Opts, rep: &mut Report) {
    let max_m = if o.thorough() { 6 } else { 4 };
    for m in 0..=max_m {
        match n {
            0 => with_m!(m, 0, o, rep),
            1 => with_m!(m, 1, o, rep),
            2 => with_m!(m, 2, o, rep),
            3 => with_m!(m, 3, o, rep),
            4 => with_m!(m, 4, o, rep),
            5 => with_m!(m, 5, o, rep),
            6 => with_m!(m, 6, o, rep),
            _ => panic!("unsupported N"),
        }
    }
    // single-operand judgements: Debug, layout vacuity
    macro_rules! singles {
        ($n:literal) => {{
            let ops = operands($n, 3);
            let lay = observed_layouts::<$n>(&ops);
            rep.layouts = lay as u64;
            rep.expected_layouts = if $n == 0 { 1 } else { ($n * $n + 1) as u64 };
            rep.states = ops.len() as u64;
            for l in &ops {
                for p in debug_case::<$n>(l) {
                    rep.violation(Violation {
                        sig: format!("N={}:debug:format", $n),
                        detail: format!("N={} buffer(rot:contents)={}: {}", $n, l.show(), p),
                        replay: ReplayCase { n: $n, ctor: "boxed".into(), recipe: "".into(), filling: "none".into(), act: "debug".into(), fault: "none".into(), extra: l.show() },
                    });
                }
                rep.transitions += 1;
                rep.validated += 1;
                rep.evaluations += 1;
            }
            rep.action("debug");
        }};
    }
    match n {
        0 => singles!(0),
        1 => singles!(1),
        2 => singles!(2),
        3 => singles!(3),
        4 => singles!(4),
        5 => singles!(5),
        6 => singles!(6),
        _ => {}
    }
    rep.fixpoint = true;
    rep.notes.push(format!("N={}: paired with every M in 0..={}; (first-slice length, length) layouts observed: {} of {}", n, max_m, rep.layouts, rep.expected_layouts));
}

pub fn replay_c13(c: &Case) -> Result<i32, String> {
    let n = c.n;
    if c.act == "debug" {
        let l = Operand::parse(&c.extra).ok_or("bad operand")?;
        macro_rules! d {
            ($n:literal) => {
                debug_case::<$n>(&l)
            };
        }
        let probs = match n {
            0 => d!(0),
            1 => d!(1),
            2 => d!(2),
            3 => d!(3),
            4 => d!(4),
            5 => d!(5),
            6 => d!(6),
            _ => return Err("unsupported N".into()),
        };
        for p in &probs {
            println!("VIOLATION REPRODUCED: {}", p);
        }
        return Ok(if probs.is_empty() { 0 } else { 1 });
    }
    if c.act == "zst-pair" {
        let v: Vec<usize> = c.extra.split('|').map(|x| x.parse().ok()).collect::<Option<Vec<_>>>().ok_or("bad zst pair")?;
        if v.len() != 5 {
            return Err("bad zst pair".into());
        }
        macro_rules! z2 {
            ($n:literal) => {
                match v[0] {
                    0 => zst_compare_case::<$n, 0>(v[1], v[2], v[3], v[4]),
                    1 => zst_compare_case::<$n, 1>(v[1], v[2], v[3], v[4]),
                    2 => zst_compare_case::<$n, 2>(v[1], v[2], v[3], v[4]),
                    3 => zst_compare_case::<$n, 3>(v[1], v[2], v[3], v[4]),
                    4 => zst_compare_case::<$n, 4>(v[1], v[2], v[3], v[4]),
                    5 => zst_compare_case::<$n, 5>(v[1], v[2], v[3], v[4]),
                    6 => zst_compare_case::<$n, 6>(v[1], v[2], v[3], v[4]),
                    _ => return Err("unsupported M".into()),
                }
            };
        }
        let probs = match n {
            0 => z2!(0),
            1 => z2!(1),
            2 => z2!(2),
            3 => z2!(3),
            4 => z2!(4),
            5 => z2!(5),
            6 => z2!(6),
            _ => return Err("unsupported N".into()),
        };
        for p in &probs {
            println!("VIOLATION REPRODUCED: {}", p);
        }
        return Ok(if probs.is_empty() { 0 } else { 1 });
    }
    let parts: Vec<&str> = c.extra.split('|').collect();
    if parts.len() != 3 {
        return Err("bad pair encoding".into());
    }
    let m: usize = parts[0].parse().map_err(|_| "bad M")?;
    let l = Operand::parse(parts[1]).ok_or("bad left operand")?;
    let r = Operand::parse(parts[2]).ok_or("bad right operand")?;
    macro_rules! p2 {
        ($n:literal) => {
            match m {
                0 => pair_case::<$n, 0>(&l, &r),
                1 => pair_case::<$n, 1>(&l, &r),
                2 => pair_case::<$n, 2>(&l, &r),
                3 => pair_case::<$n, 3>(&l, &r),
                4 => pair_case::<$n, 4>(&l, &r),
                5 => pair_case::<$n, 5>(&l, &r),
                6 => pair_case::<$n, 6>(&l, &r),
                _ => return Err("unsupported M".into()),
            }
        };
    }
    let probs = match n {
        0 => p2!(0),
        1 => p2!(1),
        2 => p2!(2),
        3 => p2!(3),
        4 => p2!(4),
        5 => p2!(5),
        6 => p2!(6),
        _ => return Err("unsupported N".into()),
    };
    println!("N={} M={} left(rot:contents)={} right={}", n, m, l.show(), r.show());
    for p in &probs {
        println!("VIOLATION REPRODUCED: {}", p);
    }
    Ok(if probs.is_empty() { 0 } else { 1 })
}
