//! Executing one action on the real code, recording everything observable (DESIGN §3.5a).

use crate::act::*;
use crate::ledger::{self, fault_point, tag_of, Ev, FaultKind, Tag, E};
use crate::model::{self, Exp, Obs, Post};
use crate::sut::*;
use std::cell::Cell;
use std::hash::{Hash, Hasher};
use std::panic::{catch_unwind, AssertUnwindSafe};

thread_local! {
    static CRATE_ALLOCS: Cell<u64> = const { Cell::new(0) };
    /// bumped before every call into the crate: watchdog progress + journal
    pub static PROGRESS: Cell<u64> = const { Cell::new(0) };
}

/// Run one call into the crate, attributing heap allocations made during it to the crate.
#[inline(always)]
pub fn m<R>(f: impl FnOnce() -> R) -> R {
    let a0 = crate::alloc::count();
    let r = f();
    let d = crate::alloc::count() - a0;
    CRATE_ALLOCS.with(|c| c.set(c.get() + d));
    r
}

/// Deterministic, allocation-free hasher (FNV-1a).
pub struct Fnv(pub u64);
impl Default for Fnv {
    fn default() -> Self {
        Fnv(0xcbf29ce484222325)
    }
}
impl Hasher for Fnv {
    fn finish(&self) -> u64 {
        self.0
    }
    fn write(&mut self, bytes: &[u8]) {
        for b in bytes {
            self.0 ^= *b as u64;
            self.0 = self.0.wrapping_mul(0x100000001b3);
        }
    }
}
/// A hasher that is sensitive to *call boundaries*: every `write` call mixes in its own length and
/// position before the bytes.  The `Hash` contract must hold for every `Hasher`, including ones for
/// which `write(ab)` differs from `write(a); write(b)`.
pub struct BoundaryHasher {
    h: Fnv,
    calls: u64,
}
impl Default for BoundaryHasher {
    fn default() -> Self {
        BoundaryHasher { h: Fnv::default(), calls: 0 }
    }
}
impl Hasher for BoundaryHasher {
    fn finish(&self) -> u64 {
        self.h.finish() ^ self.calls.wrapping_mul(0x9E37_79B9_7F4A_7C15)
    }
    fn write(&mut self, bytes: &[u8]) {
        self.calls += 1;
        self.h.write(&(bytes.len() as u64).to_le_bytes());
        self.h.write(&self.calls.to_le_bytes());
        self.h.write(bytes);
    }
}
pub fn boundary_hash_of<T: Hash + ?Sized>(t: &T) -> u64 {
    let mut h = BoundaryHasher::default();
    t.hash(&mut h);
    h.finish()
}
pub fn fnv_of<T: Hash + ?Sized>(t: &T) -> u64 {
    let mut h = Fnv::default();
    t.hash(&mut h);
    h.finish()
}

/// What the harness still owns after the call (elements handed back, argument slices, other buffers).
#[derive(Default)]
pub struct Hold<const N: usize> {
    pub elems: Vec<E>,
    pub bufs: Vec<Box<Cb<N>>>,
    /// the buffer under test while it is temporarily part of a tuple (ExtendPairs); survives unwinding
    pub pair: Option<(Cb<N>, Cb<N>)>,
}
impl<const N: usize> Hold<N> {
    pub fn ids(&self) -> Vec<u32> {
        let mut v: Vec<u32> = self.elems.iter().map(|e| e.0).collect();
        for b in &self.bufs {
            v.extend(b.iter().map(|e| e.0));
        }
        if let Some((_, b1)) = &self.pair {
            v.extend(b1.iter().map(|e| e.0));
        }
        v
    }
}

struct FaultyPairs {
    inner: std::vec::IntoIter<(E, E)>,
}
impl Iterator for FaultyPairs {
    type Item = (E, E);
    fn next(&mut self) -> Option<(E, E)> {
        if fault_point(FaultKind::IterNext) {
            panic!("injected fault: iterator next");
        }
        self.inner.next()
    }
    fn size_hint(&self) -> (usize, Option<usize>) {
        self.inner.size_hint()
    }
}

pub struct FaultyIter {
    pub inner: std::vec::IntoIter<E>,
    /// size_hint shape: 0 exact, 1 unknown, 2 loose upper bound, 3 exact lower bound without upper,
    /// 4 = unknown hint AND not fused: polled again after its first `None` it produces a poison element,
    /// 5 = lower bound 3 too high, 6 = "exactly m + 2", 7 = upper bound one too low (all three incorrect)
    pub hint: usize,
    pub slack: usize,
}
impl Iterator for FaultyIter {
    type Item = E;
    fn next(&mut self) -> Option<E> {
        if fault_point(FaultKind::IterNext) {
            panic!("injected fault: iterator next");
        }
        match self.inner.next() {
            Some(e) => Some(e),
            None if self.hint == 4 && self.slack < usize::MAX - 2 => {
                // first None; a consumer that polls again gets (two) poison elements — polling again is a
                // protocol violation of the consumer
                self.slack = usize::MAX - 2;
                None
            }
            None if self.hint == 4 && self.slack < usize::MAX => {
                self.slack += 1;
                Some(E::with_tag(ledger::TAG_GARB - 1))
            }
            None => None,
        }
    }
    fn size_hint(&self) -> (usize, Option<usize>) {
        let m = self.inner.len();
        match self.hint {
            0 => (m, Some(m)),
            2 => (0, Some(m + self.slack)),
            3 => (m, None),
            // incorrect hints (std: "a buggy iterator may yield less than the lower bound or more than the upper
            // bound"; safe code must stay safe and, here, correct — only the items really yielded count)
            5 => (m + 3, None),
            6 => (m + 2, Some(m + 2)),
            7 => (0, Some(m.saturating_sub(1))),
            _ => (0, None),
        }
    }
}

fn ret_opt<const N: usize>(r: Option<E>, tr: &mut Vec<Obs>, hold: &mut Hold<N>) {
    match r {
        None => tr.push(Obs::NoneV),
        Some(e) => {
            tr.push(Obs::SomeV(tag_of(e.0)));
            hold.elems.push(e);
        }
    }
}
fn ret_ref(r: Option<&E>, tr: &mut Vec<Obs>) {
    tr.push(match r {
        None => Obs::NoneV,
        Some(e) => Obs::SomeV(tag_of(e.0)),
    })
}
fn tags_of<'a>(it: impl Iterator<Item = &'a E>) -> Vec<Tag> {
    it.map(|e| tag_of(e.0)).collect()
}

/// Build a second buffer holding `m` fresh elements tagged A0.., whose front sits `rot` slots in.
pub fn other_buf<const N: usize>(m: usize, rot: usize) -> Box<Cb<N>> {
    let mut b: Box<Cb<N>> = Box::new(Cb::<N>::new());
    if N > 0 {
        for _ in 0..(rot % N) {
            b.push_back(E::with_tag(ledger::TAG_HELD));
            drop(b.pop_front());
        }
    }
    for j in 0..m.min(N) {
        b.push_back(E::with_tag(ledger::t_a(j)));
    }
    b
}

fn run_script<I, F>(it: &mut I, s: Script, tr: &mut Vec<Obs>, mut sink: F)
where
    I: DoubleEndedIterator + ExactSizeIterator,
    F: FnMut(I::Item) -> Tag,
{
    tr.push(Obs::Len(m(|| it.len())));
    for i in 0..s.len as usize {
        let y = if s.back(i) { m(|| it.next_back()) } else { m(|| it.next()) };
        tr.push(Obs::Yield(y.map(&mut sink)));
        let l = m(|| it.len());
        let h = m(|| it.size_hint());
        if h != (l, Some(l)) {
            tr.push(Obs::Str(format!("size_hint {:?} != len {}", h, l)));
        }
        tr.push(Obs::Len(l));
    }
}

fn run_steps<I, F>(it: &mut I, st: Steps, tr: &mut Vec<Obs>, mut sink: F)
where
    I: DoubleEndedIterator + ExactSizeIterator,
    F: FnMut(I::Item) -> Tag,
{
    tr.push(Obs::Len(m(|| it.len())));
    for i in 0..st.len as usize {
        let kind = st.step(i);
        if let Some((_, want)) = Steps::short_circuit(kind) {
            // counting predicates: true at the `want`-th element offered
            let mut seen = 0usize;
            match kind {
                8 => {
                    let y = m(|| it.find(|_| { seen += 1; seen == want }));
                    tr.push(Obs::Yield(y.map(&mut sink)));
                }
                9 => {
                    let y = m(|| it.rfind(|_| { seen += 1; seen == want }));
                    tr.push(Obs::Yield(y.map(&mut sink)));
                }
                10 => {
                    let r = m(|| it.position(|x| { seen += 1; sink(x); seen == want }));
                    tr.push(Obs::Str(format!("{:?}", r)));
                }
                11 => {
                    let r = m(|| it.rposition(|x| { seen += 1; sink(x); seen == want }));
                    tr.push(Obs::Str(format!("{:?}", r)));
                }
                12 => {
                    let r = m(|| it.any(|x| { seen += 1; sink(x); seen == want }));
                    tr.push(Obs::Str(format!("{:?}", r)));
                }
                13 => {
                    let r = m(|| it.all(|x| { seen += 1; sink(x); seen != want }));
                    tr.push(Obs::Str(format!("{:?}", r)));
                }
                14 => {
                    let r = m(|| it.try_fold(0usize, |acc, x| { sink(x); if acc + 1 == want { None } else { Some(acc + 1) } }));
                    tr.push(Obs::Str(format!("{:?}", r)));
                }
                _ => {
                    let r = m(|| it.try_rfold(0usize, |acc, x| { sink(x); if acc + 1 == want { None } else { Some(acc + 1) } }));
                    tr.push(Obs::Str(format!("{:?}", r)));
                }
            }
        } else {
            let (back, skip) = Steps::decode(kind);
            let k = skip.unwrap_or(usize::MAX);
            let y = match (back, skip) {
                (false, Some(0)) => m(|| it.next()),
                (true, Some(0)) => m(|| it.next_back()),
                (false, _) => m(|| it.nth(k)),
                (true, _) => m(|| it.nth_back(k)),
            };
            tr.push(Obs::Yield(y.map(&mut sink)));
        }
        let l = m(|| it.len());
        let h = m(|| it.size_hint());
        if h != (l, Some(l)) {
            tr.push(Obs::Str(format!("size_hint {:?} != len {}", h, l)));
        }
        tr.push(Obs::Len(l));
    }
}

/// Apply `act` to the real buffer, appending observations to `tr`.  Everything that calls into the
/// crate goes through `m(..)`.  Argument elements are created here, tagged `A(j)`, *before* the
/// ledger's call window opens (see `exec_step`), via `args`.
pub fn apply<const N: usize>(
    sut: &mut Sut<N>,
    act: &Act,
    args: &mut Vec<E>,
    tr: &mut Vec<Obs>,
    hold: &mut Hold<N>,
) {
    use Act::*;
    PROGRESS.with(|p| p.set(p.get() + 1));
    let mut arg = || args.remove(0);
    match *act {
        PushBack => {
            let x = arg();
            let r = m(|| sut.buf().push_back(x));
            ret_opt(r, tr, hold)
        }
        PushFront => {
            let x = arg();
            let r = m(|| sut.buf().push_front(x));
            ret_opt(r, tr, hold)
        }
        TryPushBack | TryPushFront => {
            let x = arg();
            let r = if matches!(act, TryPushBack) {
                m(|| sut.buf().try_push_back(x))
            } else {
                m(|| sut.buf().try_push_front(x))
            };
            match r {
                Ok(()) => tr.push(Obs::OkV),
                Err(e) => {
                    tr.push(Obs::ErrV(tag_of(e.0)));
                    hold.elems.push(e)
                }
            }
        }
        PopBack => {
            let r = m(|| sut.buf().pop_back());
            ret_opt(r, tr, hold)
        }
        PopFront => {
            let r = m(|| sut.buf().pop_front());
            ret_opt(r, tr, hold)
        }
        Remove(i) => {
            let r = m(|| sut.buf().remove(i));
            ret_opt(r, tr, hold)
        }
        SwapRemoveBack(i) => {
            let r = m(|| sut.buf().swap_remove_back(i));
            ret_opt(r, tr, hold)
        }
        SwapRemoveFront(i) => {
            let r = m(|| sut.buf().swap_remove_front(i));
            ret_opt(r, tr, hold)
        }
        Swap(i, j) => {
            m(|| sut.buf().swap(i, j));
            tr.push(Obs::Unit)
        }
        TruncateBack(k) => {
            m(|| sut.buf().truncate_back(k));
            tr.push(Obs::Unit)
        }
        TruncateFront(k) => {
            m(|| sut.buf().truncate_front(k));
            tr.push(Obs::Unit)
        }
        Clear => {
            m(|| sut.buf().clear());
            tr.push(Obs::Unit)
        }
        Extend(_) | ExtendHint(..) => {
            let v: Vec<E> = std::mem::take(args);
            let hint = if let ExtendHint(_, h) = *act { h } else { 1 };
            let it = FaultyIter { inner: v.into_iter(), hint, slack: 2 * N + 3 };
            m(|| sut.buf().extend(it));
            tr.push(Obs::Unit)
        }
        ExtendFromSlice(_) => {
            // the slice stays owned by the harness
            hold.elems.append(args);
            let b = sut.b.as_mut().unwrap();
            m(|| b.extend_from_slice(&hold.elems[..]));
            tr.push(Obs::Unit)
        }
        Fill => {
            let x = arg();
            m(|| sut.buf().fill(x));
            tr.push(Obs::Unit)
        }
        FillSpare => {
            let x = arg();
            m(|| sut.buf().fill_spare(x));
            tr.push(Obs::Unit)
        }
        FillWith | FillSpareWith => {
            let f = || {
                if fault_point(FaultKind::Closure) {
                    panic!("injected fault: closure");
                }
                E::in_call_fresh()
            };
            if matches!(act, FillWith) {
                m(|| sut.buf().fill_with(f));
            } else {
                m(|| sut.buf().fill_spare_with(f));
            }
            tr.push(Obs::Unit)
        }
        Drain(rs, s, fin) => {
            let b = sut.b.as_mut().unwrap();
            let mut d = m(|| b.drain(rs.bounds()));
            run_script(&mut d, s, tr, |e: E| {
                let t = tag_of(e.0);
                hold.elems.push(e);
                t
            });
            match fin {
                Fin::Drop => m(|| drop(d)),
                Fin::Forget => std::mem::forget(d),
            }
        }
        MakeContiguous => {
            let b = sut.b.as_mut().unwrap();
            let s = m(|| b.make_contiguous());
            let tags = tags_of(s.iter());
            tr.push(Obs::Tags(tags));
            let second_empty = m(|| b.as_slices().1.is_empty());
            tr.push(Obs::Bool(second_empty));
        }
        WriteVia(acc, i) => {
            let x = arg();
            let len = m(|| sut.bref().len());
            let b = sut.b.as_mut().unwrap();
            let slot: Option<&mut E> = match acc {
                Acc::GetMut => m(|| b.get_mut(i)),
                Acc::NthFrontMut => m(|| b.nth_front_mut(i)),
                Acc::NthBackMut => m(|| b.nth_back_mut(i)),
                Acc::IndexMut => Some(m(|| &mut b[i])),
                Acc::FrontMut => {
                    if i == 0 {
                        m(|| b.front_mut())
                    } else {
                        None
                    }
                }
                Acc::BackMut => {
                    if i == 0 {
                        m(|| b.back_mut())
                    } else {
                        None
                    }
                }
                Acc::IterMut => m(|| b.iter_mut().nth(i)),
                Acc::IterMutRev => m(|| b.iter_mut().rev().nth(i)),
                Acc::RangeMut => m(|| b.range_mut(i..=i).next()),
                Acc::AsMutSlices => {
                    let (s0, s1) = m(|| b.as_mut_slices());
                    let l0 = s0.len();
                    if i < l0 {
                        s0.get_mut(i)
                    } else {
                        s1.get_mut(i.wrapping_sub(l0))
                    }
                }
                Acc::MakeContig => m(|| b.make_contiguous()).get_mut(i),
            };
            let _ = len;
            match slot {
                Some(r) => {
                    let old = std::mem::replace(r, x);
                    tr.push(Obs::SomeV(tag_of(old.0)));
                    hold.elems.push(old);
                }
                None => {
                    tr.push(Obs::NoneV);
                    hold.elems.push(x);
                }
            }
        }
        CloneFrom(..) => {
            // source buffer was prepared in `hold.bufs[0]`
            let src = hold.bufs.pop().expect("clone_from source");
            m(|| sut.buf().clone_from(&src));
            tr.push(Obs::Unit);
            tr.push(Obs::Tags(tags_of(src.iter())));
            hold.bufs.push(src);
        }
        IntoIter(s) => {
            let b: Cb<N> = *sut.b.take().unwrap();
            let mut it = m(|| b.into_iter());
            run_script(&mut it, s, tr, |e: E| {
                let t = tag_of(e.0);
                hold.elems.push(e);
                t
            });
            m(|| drop(it));
        }
        StepsOn(kind, rs, st) => match kind {
            0 => {
                let mut it = m(|| sut.bref().iter());
                run_steps(&mut it, st, tr, |e: &E| tag_of(e.0));
            }
            1 => {
                let b = sut.b.as_mut().unwrap();
                let mut it = m(|| b.iter_mut());
                run_steps(&mut it, st, tr, |e: &mut E| tag_of(e.0));
            }
            2 => {
                let mut it = m(|| sut.bref().range(rs.bounds()));
                run_steps(&mut it, st, tr, |e: &E| tag_of(e.0));
            }
            3 => {
                let b = sut.b.as_mut().unwrap();
                let mut it = m(|| b.range_mut(rs.bounds()));
                run_steps(&mut it, st, tr, |e: &mut E| tag_of(e.0));
            }
            4 => {
                let b: Cb<N> = *sut.b.take().unwrap();
                let mut it = m(|| b.into_iter());
                run_steps(&mut it, st, tr, |e: E| {
                    let t = tag_of(e.0);
                    hold.elems.push(e);
                    t
                });
                m(|| drop(it));
            }
            6 => {
                // the drain is leaked after the steps (C10)
                let b = sut.b.as_mut().unwrap();
                let mut d = m(|| b.drain(rs.bounds()));
                run_steps(&mut d, st, tr, |e: E| {
                    let t = tag_of(e.0);
                    hold.elems.push(e);
                    t
                });
                std::mem::forget(d);
            }
            _ => {
                let b = sut.b.as_mut().unwrap();
                let mut d = m(|| b.drain(rs.bounds()));
                run_steps(&mut d, st, tr, |e: E| {
                    let t = tag_of(e.0);
                    hold.elems.push(e);
                    t
                });
                m(|| drop(d));
            }
        },
        ExtendPairs(_) => {
            let v: Vec<E> = std::mem::take(args);
            let pairs: Vec<(E, E)> = v.into_iter().map(|e| (e, E::with_tag(ledger::TAG_HELD))).collect();
            let it = FaultyPairs { inner: pairs.into_iter() };
            let b: Cb<N> = *sut.b.take().unwrap();
            hold.pair = Some((b, Cb::<N>::new()));
            m(|| hold.pair.as_mut().unwrap().extend(it));
            tr.push(Obs::Unit);
        }
        ExtendFromBuf(..) => {
            let other: Cb<N> = *hold.bufs.pop().expect("source buffer");
            m(|| sut.buf().extend(other));
            tr.push(Obs::Unit);
        }
        IntoIterCloneFrom(a, _, b2) => {
            let src_buf: Cb<N> = *hold.bufs.pop().expect("source buffer");
            let mut src = src_buf.into_iter();
            for _ in 0..b2 {
                if let Some(e) = src.next() {
                    hold.elems.push(e);
                }
            }
            let b: Cb<N> = *sut.b.take().unwrap();
            let mut it = m(|| b.into_iter());
            for _ in 0..a {
                if let Some(e) = m(|| it.next()) {
                    hold.elems.push(e);
                }
            }
            m(|| it.clone_from(&src));
            let mut got = vec![];
            for e in it {
                got.push(tag_of(e.0));
                hold.elems.push(e);
            }
            tr.push(Obs::Tags(got));
            let mut got = vec![];
            for e in src {
                got.push(tag_of(e.0));
                hold.elems.push(e);
            }
            tr.push(Obs::Tags(got));
        }
        DrainDebug(rs, s) => {
            let b = sut.b.as_mut().unwrap();
            let mut d = m(|| b.drain(rs.bounds()));
            run_script(&mut d, s, tr, |e: E| {
                let t = tag_of(e.0);
                hold.elems.push(e);
                t
            });
            tr.push(Obs::Str(format!("{:?}", d)));
            m(|| drop(d));
        }
        IterDebug(kind, s) => match kind % 4 {
            0 => {
                let mut it = m(|| sut.bref().iter());
                run_script(&mut it, s, tr, |e: &E| tag_of(e.0));
                tr.push(Obs::Str(model::fmt_with(&it, kind / 4)));
            }
            1 => {
                let b = sut.b.as_mut().unwrap();
                let mut it = m(|| b.iter_mut());
                run_script(&mut it, s, tr, |e: &mut E| tag_of(e.0));
                tr.push(Obs::Str(model::fmt_with(&it, kind / 4)));
            }
            _ => {
                let b: Cb<N> = *sut.b.take().unwrap();
                let mut it = m(|| b.into_iter());
                run_script(&mut it, s, tr, |e: E| {
                    let t = tag_of(e.0);
                    hold.elems.push(e);
                    t
                });
                tr.push(Obs::Str(model::fmt_with(&it, kind / 4)));
                m(|| drop(it));
            }
        },
        IntoIterClone(s) => {
            let b: Cb<N> = *sut.b.take().unwrap();
            let mut it = m(|| b.into_iter());
            run_script(&mut it, s, tr, |e: E| {
                let t = tag_of(e.0);
                hold.elems.push(e);
                t
            });
            let c = m(|| it.clone());
            let mut got = vec![];
            for e in c {
                got.push(tag_of(e.0));
                hold.elems.push(e);
            }
            tr.push(Obs::Tags(got));
            let mut got = vec![];
            for e in it {
                got.push(tag_of(e.0));
                hold.elems.push(e);
            }
            tr.push(Obs::Tags(got));
        }
        DropBuf => {
            let b = sut.b.take().unwrap();
            m(|| drop(b));
            tr.push(Obs::Unit);
        }
        Get(i) => {
            let r = m(|| sut.bref().get(i));
            ret_ref(r, tr)
        }
        NthFront(i) => {
            let r = m(|| sut.bref().nth_front(i));
            ret_ref(r, tr)
        }
        NthBack(i) => {
            let r = m(|| sut.bref().nth_back(i));
            ret_ref(r, tr)
        }
        Front => {
            let r = m(|| sut.bref().front());
            ret_ref(r, tr)
        }
        Back => {
            let r = m(|| sut.bref().back());
            ret_ref(r, tr)
        }
        Index(i) => {
            let r = m(|| &sut.bref()[i]);
            ret_ref(Some(r), tr)
        }
        Iter(s) => {
            let mut it = m(|| sut.bref().iter());
            run_script(&mut it, s, tr, |e: &E| tag_of(e.0));
        }
        IterMut(s) => {
            let b = sut.b.as_mut().unwrap();
            let mut it = m(|| b.iter_mut());
            run_script(&mut it, s, tr, |e: &mut E| tag_of(e.0));
        }
        Range(rs, s) => {
            let mut it = m(|| sut.bref().range(rs.bounds()));
            run_script(&mut it, s, tr, |e: &E| tag_of(e.0));
        }
        RangeMut(rs, s) => {
            let b = sut.b.as_mut().unwrap();
            let mut it = m(|| b.range_mut(rs.bounds()));
            run_script(&mut it, s, tr, |e: &mut E| tag_of(e.0));
        }
        AsSlices => {
            let (x, y) = m(|| sut.bref().as_slices());
            tr.push(Obs::Tags(tags_of(x.iter().chain(y.iter()))));
        }
        AsMutSlices => {
            let b = sut.b.as_mut().unwrap();
            let (x, y) = m(|| b.as_mut_slices());
            tr.push(Obs::Tags(tags_of(x.iter().chain(y.iter()))));
        }
        ToVec => {
            #[cfg(feature = "alloc")]
            {
                let v = sut.bref().to_vec(); // allowed to allocate: not measured
                tr.push(Obs::Tags(tags_of(v.iter())));
                hold.elems.extend(v);
            }
            #[cfg(not(feature = "alloc"))]
            {
                tr.push(Obs::Tags(tags_of(sut.bref().iter()).iter().map(|t| ledger::t_c(*t)).collect()));
            }
        }
        CloneBuf => {
            let c = m(|| sut.bref().clone());
            tr.push(Obs::Tags(tags_of(c.iter())));
            hold.bufs.push(Box::new(c));
        }
        DebugFmt(k) => {
            // String formatting allocates in the harness; not measured
            tr.push(Obs::Str(model::fmt_with(sut.bref(), k)));
        }
        HashIt => {
            let h = m(|| fnv_of(sut.bref())) ^ m(|| boundary_hash_of(sut.bref())).rotate_left(17);
            tr.push(Obs::Opaque(h));
        }
        EqSelfClone | CmpSelfClone => {
            // a clone with a different physical layout where possible
            let mut c: Box<Cb<N>> = Box::new(Cb::<N>::new());
            if N > 0 {
                c.push_back(E::with_tag(ledger::TAG_HELD));
                drop(c.pop_front());
            }
            c.extend(sut.bref().iter().cloned());
            if matches!(act, EqSelfClone) {
                tr.push(Obs::Bool(m(|| *sut.bref() == *c)));
                tr.push(Obs::Bool(m(|| *sut.bref() != *c)));
            } else {
                tr.push(Obs::Ord(m(|| sut.bref().partial_cmp(&*c)).map(|o| o as i8)));
                tr.push(Obs::Ord(Some(m(|| sut.bref().cmp(&*c)) as i8)));
            }
            hold.bufs.push(c);
        }
        EqSlice => {
            let v: Vec<E> = sut.bref().iter().cloned().collect();
            tr.push(Obs::Bool(m(|| *sut.bref() == v[..])));
            tr.push(Obs::Bool(m(|| *sut.bref() != v[..])));
            hold.elems.extend(v);
        }
        EqOther(_) => {
            let o = hold.bufs.pop().expect("other buffer");
            tr.push(Obs::Bool(m(|| *sut.bref() == *o)));
            tr.push(Obs::Bool(m(|| *o == *sut.bref())));
            hold.bufs.push(o);
        }
        CmpOther(_) => {
            let o = hold.bufs.pop().expect("other buffer");
            tr.push(Obs::Ord(m(|| sut.bref().partial_cmp(&*o)).map(|x| x as i8)));
            tr.push(Obs::Ord(Some(m(|| sut.bref().cmp(&*o)) as i8)));
            hold.bufs.push(o);
        }
    }
}

/// Number of argument elements the harness creates for `act`.
pub fn n_args(act: &Act) -> usize {
    use Act::*;
    match *act {
        PushBack | PushFront | TryPushBack | TryPushFront | Fill | FillSpare | WriteVia(..) => 1,
        Extend(m) | ExtendFromSlice(m) | ExtendHint(m, _) | ExtendPairs(m) => m,
        _ => 0,
    }
}

#[derive(Clone, Debug)]
pub struct StepRec {
    pub act: Act,
    pub fault: Option<(FaultKind, u32)>,
    pub fired: bool,
    pub pre: Snap,
    pub post: Snap,
    pub consumed: bool,
    pub trace: Vec<Obs>,
    pub panicked: bool,
    pub panic_msg: String,
    pub events: Vec<Ev>,
    pub counts: [u32; 7],
    pub allocs: u64,
    /// contents after the call, as tags (relative to the pre-state labelling)
    pub post_tags: Vec<Tag>,
    /// ids the harness still holds after the call
    pub held: Vec<u32>,
    /// live ids after the call
    pub live: Vec<u32>,
    /// surviving elements whose slot changed: (tag, from, to)
    pub relocated: Vec<(Tag, usize, usize)>,
}

/// Execute one action with the ledger's call window open, then snapshot.  `keep` receives what the
/// harness still owns (so the caller decides when it is dropped).
pub fn exec_step<const N: usize>(
    sut: &mut Sut<N>,
    act: &Act,
    fault: Option<(FaultKind, u32)>,
    keep: &mut Hold<N>,
) -> StepRec {
    let pre = sut.snap();
    ledger::relabel(&pre.iter);
    let mut args: Vec<E> = (0..n_args(act)).map(|j| E::with_tag(ledger::t_a(j))).collect();
    let mut hold: Hold<N> = Hold::default();
    match *act {
        Act::CloneFrom(mm, rot) | Act::ExtendFromBuf(mm, rot) => hold.bufs.push(other_buf::<N>(mm, rot)),
        Act::IntoIterCloneFrom(_, mm, _) => hold.bufs.push(other_buf::<N>(mm, 1)),
        Act::EqOther(mm) | Act::CmpOther(mm) => hold.bufs.push(other_buf::<N>(mm, 1)),
        _ => {}
    }
    // events caused by preparing arguments are not the crate's
    let _ = ledger::take_events();
    let mut trace = vec![];
    CRATE_ALLOCS.with(|c| c.set(0));
    ledger::begin_call();
    ledger::arm(fault);
    let r = catch_unwind(AssertUnwindSafe(|| {
        apply(sut, act, &mut args, &mut trace, &mut hold);
    }));
    let (events, counts, fired) = ledger::end_call();
    if let Some((b0, b1)) = hold.pair.take() {
        sut.b = Some(Box::new(b0));
        hold.bufs.push(Box::new(b1));
    }
    let allocs = CRATE_ALLOCS.with(|c| c.get());
    let (panicked, panic_msg) = match &r {
        Ok(()) => (false, String::new()),
        Err(p) => (true, crate::panic_text(p)),
    };
    // unused arguments stay owned by the harness
    hold.elems.append(&mut args);
    let consumed = sut.b.is_none();
    let post = if consumed { Snap::default() } else { sut.snap() };
    let post_tags: Vec<Tag> = post.iter.iter().map(|id| tag_of(*id)).collect();
    let held = hold.ids();
    if matches!(act, Act::Drain(_, _, Fin::Forget) | Act::StepsOn(6, ..)) && !panicked && post.ok {
        // documented: a leaked drain may lose arbitrary elements; they are gone, not "leaked by a bug"
        let mut reach = post.iter.clone();
        reach.extend(held.iter().copied());
        reach.extend(keep.ids()); // what the caller already owned (e.g. planted "held" elements) stays alive
        ledger::forgive_unreachable(&reach);
    }
    let live = ledger::live_ids();
    // relocation: surviving ids whose slot changed
    let mut relocated = vec![];
    if post.ok && pre.ok {
        let pocc = pre.occ();
        let qocc = post.occ();
        for (r, id) in pre.iter.iter().enumerate() {
            if let Some(q) = post.iter.iter().position(|x| x == id) {
                if let (Some(a), Some(b)) = (pocc.get(r), qocc.get(q)) {
                    if a != b {
                        relocated.push((ledger::t_r(r), *a, *b));
                    }
                }
            }
        }
    }
    keep.elems.append(&mut hold.elems);
    keep.bufs.append(&mut hold.bufs);
    StepRec {
        act: *act,
        fault,
        fired,
        pre,
        post,
        consumed,
        trace,
        panicked,
        panic_msg,
        events,
        counts,
        allocs,
        post_tags,
        held,
        live,
        relocated,
    }
}

/// Fast application without bookkeeping (recipe replay).  Returns false if the call panicked.
pub fn apply_fast<const N: usize>(sut: &mut Sut<N>, act: &Act) -> bool {
    let mut args: Vec<E> = (0..n_args(act)).map(|j| E::with_tag(ledger::t_a(j))).collect();
    let mut hold: Hold<N> = Hold::default();
    if let Act::CloneFrom(mm, rot) | Act::ExtendFromBuf(mm, rot) = *act {
        hold.bufs.push(other_buf::<N>(mm, rot));
    }
    if let Act::IntoIterCloneFrom(_, mm, _) = *act {
        hold.bufs.push(other_buf::<N>(mm, 1));
    }
    if let Act::EqOther(mm) | Act::CmpOther(mm) = *act {
        hold.bufs.push(other_buf::<N>(mm, 1));
    }
    let mut trace = vec![];
    let r = catch_unwind(AssertUnwindSafe(|| {
        apply(sut, act, &mut args, &mut trace, &mut hold);
    }));
    if let Some((b0, b1)) = hold.pair.take() {
        sut.b = Some(Box::new(b0));
        drop(b1);
    }
    drop(hold);
    drop(args);
    if matches!(act, Act::Drain(_, _, Fin::Forget) | Act::StepsOn(6, ..)) && r.is_ok() && sut.b.is_some() {
        if let Ok(ids) = catch_unwind(AssertUnwindSafe(|| sut.ids())) {
            ledger::forgive_unreachable(&ids);
        }
    }
    r.is_ok()
}

#[derive(Clone, Copy, PartialEq, Eq, Hash, Debug, PartialOrd, Ord)]
pub enum PKind {
    /// panicked although the model says it returns, or vice versa
    PanicMismatch,
    /// a panic that the model predicts changed the buffer
    ChangedOnPanic,
    /// returned value / yielded items / reported lengths differ from the model
    Trace,
    /// contents after the call differ from the model
    Contents,
    /// the read-only views of the post-state disagree with each other
    Views,
    /// double drop, drop of garbage, touch of a dead or garbage element
    BadEvent,
    /// an element is live but neither in the buffer nor held by the harness
    Leak,
    /// an element in the buffer or held by the harness is not live
    DeadReachable,
    /// the same element occurs twice
    Duplicate,
    /// heap allocation inside the crate
    Alloc,
    /// more surviving elements moved than documented
    Reloc,
    /// `Err`/no-op changed the memory image
    ImageChanged,
    /// call did not terminate / process died
    Crash,
    /// behaviour differs between two runs that must be indistinguishable
    Interference,
}
impl PKind {
    pub fn name(self) -> &'static str {
        match self {
            PKind::PanicMismatch => "panic-mismatch",
            PKind::ChangedOnPanic => "changed-on-panic",
            PKind::Trace => "trace",
            PKind::Contents => "contents",
            PKind::Views => "views",
            PKind::BadEvent => "bad-event",
            PKind::Leak => "leak",
            PKind::DeadReachable => "dead-reachable",
            PKind::Duplicate => "duplicate",
            PKind::Alloc => "alloc",
            PKind::Reloc => "reloc",
            PKind::ImageChanged => "image-changed",
            PKind::Crash => "crash",
            PKind::Interference => "interference",
        }
    }
}

#[derive(Clone, Debug)]
pub struct Problem {
    pub kind: PKind,
    pub detail: String,
}
fn pb(kind: PKind, detail: String) -> Problem {
    Problem { kind, detail }
}

/// Compare post contents with the model's expectation.
pub fn post_matches(post_tags: &[Tag], exp: &Post) -> Result<(), String> {
    match exp {
        Post::Exact(v) => {
            if post_tags == &v[..] {
                Ok(())
            } else {
                Err(format!(
                    "contents {} expected {}",
                    model::show_tags(post_tags),
                    model::show_tags(v)
                ))
            }
        }
        Post::ByRoot(v) => {
            let roots: Vec<Tag> = post_tags.iter().map(|t| ledger::t_root(*t)).collect();
            if roots == *v {
                Ok(())
            } else {
                Err(format!(
                    "contents {} expected (up to clone) {}",
                    model::show_tags(post_tags),
                    model::show_tags(v)
                ))
            }
        }
        Post::Consumed | Post::Unspecified => Ok(()),
    }
}

/// All generic judgements about one *fault-free* step; each property selects the kinds it owns.
pub fn judge(rec: &StepRec, exp: &Exp) -> Vec<Problem> {
    let mut out = vec![];
    if !rec.pre.ok {
        out.push(pb(PKind::Views, format!("pre-state snapshot failed: {}", rec.pre.err)));
        return out;
    }
    if rec.panicked != exp.panics {
        out.push(pb(
            PKind::PanicMismatch,
            if rec.panicked {
                format!("panicked ({}) but the documentation promises a normal return", rec.panic_msg)
            } else {
                "returned normally but the documentation promises a panic".into()
            },
        ));
    }
    let bad: Vec<String> = rec.events.iter().filter(|e| e.is_bad()).map(|e| e.show()).collect();
    if !bad.is_empty() {
        out.push(pb(PKind::BadEvent, bad.join(", ")));
    }
    if rec.panicked {
        if exp.panics && !rec.consumed {
            // documented panic: buffer must be unchanged
            if rec.post.ok {
                if rec.post_tags != (0..rec.pre.len).map(ledger::t_r).collect::<Vec<_>>() {
                    out.push(pb(
                        PKind::ChangedOnPanic,
                        format!("contents after documented panic: {}", model::show_tags(&rec.post_tags)),
                    ));
                }
                // (argument elements owned by the harness die during unwinding: not the crate's doing)
                if rec.events.iter().any(|e| matches!(e, Ev::Drop(t) | Ev::Clone(t) if *t < ledger::TAG_ARG)) {
                    out.push(pb(PKind::ChangedOnPanic, "elements were cloned/dropped by a call that panicked".into()));
                }
            } else {
                out.push(pb(PKind::ChangedOnPanic, format!("snapshot failed after panic: {}", rec.post.err)));
            }
        }
        return out;
    }
    if exp.panics {
        // returned although a panic is documented: whatever it did, ownership must still balance
        out.extend(balance(rec));
        return out;
    }
    // trace
    let same = rec.trace.len() == exp.trace.len()
        && rec.trace.iter().zip(exp.trace.iter()).all(|(o, e)| o.matches(e));
    if !same {
        out.push(pb(
            PKind::Trace,
            format!(
                "observed <{}> expected <{}>",
                model::show_trace(&rec.trace),
                model::show_trace(&exp.trace)
            ),
        ));
    }
    if !rec.consumed {
        if let Err(e) = rec.post.views_agree() {
            out.push(pb(PKind::Views, e));
        } else if let Err(e) = post_matches(&rec.post_tags, &exp.post) {
            out.push(pb(PKind::Contents, e));
        }
    }
    out.extend(balance(rec));
    out
}

/// Ledger balance: every element is in exactly one place (buffer / harness / destroyed).
pub fn balance(rec: &StepRec) -> Vec<Problem> {
    let mut out = vec![];
    let mut reach: Vec<u32> = rec.post.iter.clone();
    reach.extend(rec.held.iter().copied());
    let mut sorted = reach.clone();
    sorted.sort();
    let n0 = sorted.len();
    sorted.dedup();
    if sorted.len() != n0 {
        out.push(pb(
            PKind::Duplicate,
            format!(
                "an element is reachable twice: buffer {} held {:?}",
                model::show_tags(&rec.post_tags),
                rec.held.iter().map(|i| ledger::tag_str(tag_of(*i))).collect::<Vec<_>>()
            ),
        ));
    }
    if cfg!(feature = "plain") {
        return out; // destruction is unobservable for an element without drop glue
    }
    for id in &sorted {
        if !rec.live.contains(id) {
            out.push(pb(
                PKind::DeadReachable,
                format!("reachable element (id {}, {}) is not live", id, ledger::tag_str(tag_of(*id))),
            ));
            break;
        }
    }
    for id in &rec.live {
        if !sorted.contains(id) {
            out.push(pb(
                PKind::Leak,
                format!("element {} (id {}) is live but nowhere", ledger::tag_str(tag_of(*id)), id),
            ));
            break;
        }
    }
    out
}

/// Drop everything and require the ledger to close: no live element left, no bad event.
pub fn final_drop<const N: usize>(sut: Sut<N>, keep: Hold<N>) -> Vec<Problem> {
    let mut out = vec![];
    let _ = ledger::take_events();
    let r = catch_unwind(AssertUnwindSafe(move || {
        drop(keep);
        drop(sut);
    }));
    if let Err(p) = r {
        out.push(pb(PKind::PanicMismatch, format!("final drop panicked: {}", crate::panic_text(&p))));
    }
    let ev = ledger::take_events();
    let bad: Vec<String> = ev.iter().filter(|e| e.is_bad()).map(|e| e.show()).collect();
    if !bad.is_empty() {
        out.push(pb(PKind::BadEvent, format!("at final drop: {}", bad.join(", "))));
    }
    let live = ledger::live_ids();
    if !live.is_empty() && !cfg!(feature = "plain") {
        out.push(pb(PKind::Leak, format!("{} element(s) still live after everything was dropped", live.len())));
    }
    out
}
