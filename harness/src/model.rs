//! Reference model (DESIGN §3.3): a capped deque of *tags*, written from the doc comments.
//!
//! The model is stateless: before a transition the buffer's contents are by definition
//! `[R0, R1, …, R(len-1)]`, the arguments created for the action are `A0, A1, …`, elements produced
//! by a user closure during the call are `N0, N1, …`, and a clone of `t` is `c(t)`.  So the expected
//! observation trace is a function of `(capacity, length, action)` only.  No layout, no garbage, no
//! failure of user code.  Boring on purpose.

use crate::act::*;
use crate::ledger::*;
use std::collections::VecDeque;

#[derive(Clone, PartialEq, Eq, Hash, Debug)]
pub enum Obs {
    Unit,
    NoneV,
    SomeV(Tag),
    OkV,
    ErrV(Tag),
    Len(usize),
    Yield(Option<Tag>),
    Tags(Vec<Tag>),
    Bool(bool),
    Str(String),
    /// a value the model does not predict (hash values); compared only between runs
    Opaque(u64),
    Ord(Option<i8>),
}

impl Obs {
    pub fn show(&self) -> String {
        match self {
            Obs::Unit => "()".into(),
            Obs::NoneV => "None".into(),
            Obs::SomeV(t) => format!("Some({})", tag_str(*t)),
            Obs::OkV => "Ok(())".into(),
            Obs::ErrV(t) => format!("Err({})", tag_str(*t)),
            Obs::Len(n) => format!("len={}", n),
            Obs::Yield(None) => "yield None".into(),
            Obs::Yield(Some(t)) => format!("yield {}", tag_str(*t)),
            Obs::Tags(v) => format!("[{}]", v.iter().map(|t| tag_str(*t)).collect::<Vec<_>>().join(",")),
            Obs::Bool(b) => format!("{}", b),
            Obs::Str(s) => format!("{:?}", s),
            Obs::Opaque(x) => format!("opaque({:x})", x),
            Obs::Ord(o) => format!("{:?}", o),
        }
    }
    /// equality where the model's `Opaque` matches any observed `Opaque`
    pub fn matches(&self, model: &Obs) -> bool {
        match (self, model) {
            (Obs::Opaque(_), Obs::Opaque(_)) => true,
            _ => self == model,
        }
    }
}

pub fn show_trace(t: &[Obs]) -> String {
    t.iter().map(|o| o.show()).collect::<Vec<_>>().join("; ")
}
pub fn show_tags(t: &[Tag]) -> String {
    format!("[{}]", t.iter().map(|t| tag_str(*t)).collect::<Vec<_>>().join(","))
}

#[derive(Clone, PartialEq, Eq, Debug)]
pub enum Post {
    /// exactly these elements, in order
    Exact(Vec<Tag>),
    /// these values in order, where each position may hold the value itself or a clone of it
    ByRoot(Vec<Tag>),
    /// the buffer was consumed by the action
    Consumed,
    /// not prescribed (after leaking a drain)
    Unspecified,
}

#[derive(Clone, Debug)]
pub struct Exp {
    pub panics: bool,
    pub trace: Vec<Obs>,
    pub post: Post,
}

fn last_n(mut v: Vec<Tag>, cap: usize) -> Vec<Tag> {
    if v.len() > cap {
        v.drain(..v.len() - cap);
    }
    v
}

fn script_trace(items: &[Tag], s: Script, trace: &mut Vec<Obs>) -> VecDeque<Tag> {
    let mut dq: VecDeque<Tag> = items.iter().copied().collect();
    trace.push(Obs::Len(dq.len()));
    for i in 0..s.len as usize {
        let y = if s.back(i) { dq.pop_back() } else { dq.pop_front() };
        trace.push(Obs::Yield(y));
        trace.push(Obs::Len(dq.len()));
    }
    dq
}

pub fn debug_string(items: &[Tag], k: usize) -> String {
    let v: Vec<Te> = items.iter().map(|t| Te(*t)).collect();
    fmt_with(&v[..], k)
}

/// The formatter-flag variants used for Debug comparison (C04 / C07 / C13).
pub const N_FMTS: usize = 7;
pub fn fmt_with<T: std::fmt::Debug + ?Sized>(v: &T, k: usize) -> String {
    match k {
        0 => format!("{:?}", v),
        1 => format!("{:#?}", v),
        2 => format!("{:5?}", v),
        3 => format!("{:<5?}", v),
        4 => format!("{:+?}", v),
        5 => format!("{:#x?}", v),
        _ => format!("{:02X?}", v),
    }
}

pub fn panics() -> Exp {
    Exp {
        panics: true,
        trace: vec![],
        post: Post::Unspecified,
    }
}

/// What the documentation promises for `act` applied to a buffer of capacity `cap` holding `len` elements.
pub fn expect(cap: usize, len: usize, act: &Act) -> Exp {
    use Act::*;
    let pre: Vec<Tag> = (0..len).map(t_r).collect();
    let a0 = t_a(0);
    let mut trace = vec![];
    let mut v = pre.clone();
    let unchanged = |trace: Vec<Obs>| Exp {
        panics: false,
        trace,
        post: Post::Exact(pre.clone()),
    };
    match *act {
        PushBack => {
            if cap == 0 {
                trace.push(Obs::SomeV(a0));
            } else if len == cap {
                trace.push(Obs::SomeV(v.remove(0)));
                v.push(a0);
            } else {
                trace.push(Obs::NoneV);
                v.push(a0);
            }
        }
        PushFront => {
            if cap == 0 {
                trace.push(Obs::SomeV(a0));
            } else if len == cap {
                trace.push(Obs::SomeV(v.pop().unwrap()));
                v.insert(0, a0);
            } else {
                trace.push(Obs::NoneV);
                v.insert(0, a0);
            }
        }
        TryPushBack => {
            if len == cap {
                trace.push(Obs::ErrV(a0));
            } else {
                trace.push(Obs::OkV);
                v.push(a0);
            }
        }
        TryPushFront => {
            if len == cap {
                trace.push(Obs::ErrV(a0));
            } else {
                trace.push(Obs::OkV);
                v.insert(0, a0);
            }
        }
        PopBack => match v.pop() {
            Some(t) => trace.push(Obs::SomeV(t)),
            None => trace.push(Obs::NoneV),
        },
        PopFront => {
            if v.is_empty() {
                trace.push(Obs::NoneV)
            } else {
                trace.push(Obs::SomeV(v.remove(0)))
            }
        }
        Remove(i) => {
            if i < len {
                trace.push(Obs::SomeV(v.remove(i)))
            } else {
                trace.push(Obs::NoneV)
            }
        }
        SwapRemoveBack(i) => {
            if i < len {
                v.swap(i, len - 1);
                trace.push(Obs::SomeV(v.pop().unwrap()))
            } else {
                trace.push(Obs::NoneV)
            }
        }
        SwapRemoveFront(i) => {
            if i < len {
                v.swap(i, 0);
                trace.push(Obs::SomeV(v.remove(0)))
            } else {
                trace.push(Obs::NoneV)
            }
        }
        Swap(i, j) => {
            if i >= len || j >= len {
                return panics();
            }
            v.swap(i, j);
            trace.push(Obs::Unit);
        }
        TruncateBack(k) => {
            v.truncate(k);
            trace.push(Obs::Unit);
        }
        TruncateFront(k) => {
            v = last_n(v, k);
            trace.push(Obs::Unit);
        }
        Clear => {
            v.clear();
            trace.push(Obs::Unit);
        }
        ExtendHint(_, h) if h >= 5 => {
            // an iterator whose size_hint is incorrect: what ends up in the buffer is not prescribed (std's
            // convention for buggy iterators); the call must return, and ownership/safety judgements still apply
            trace.push(Obs::Unit);
            return Exp { panics: false, trace, post: Post::Unspecified };
        }
        Extend(m) | ExtendHint(m, _) | ExtendPairs(m) => {
            v.extend((0..m).map(t_a));
            v = last_n(v, cap);
            trace.push(Obs::Unit);
        }
        ExtendFromSlice(m) => {
            v.extend((0..m).map(|j| t_c(t_a(j))));
            v = last_n(v, cap);
            trace.push(Obs::Unit);
        }
        Fill => {
            trace.push(Obs::Unit);
            return Exp {
                panics: false,
                trace,
                post: Post::ByRoot(vec![a0; cap]),
            };
        }
        FillWith => {
            v = (0..cap).map(t_n).collect();
            trace.push(Obs::Unit);
        }
        FillSpare => {
            trace.push(Obs::Unit);
            v.extend(std::iter::repeat(a0).take(cap - len));
            return Exp {
                panics: false,
                trace,
                post: Post::ByRoot(v),
            };
        }
        FillSpareWith => {
            v.extend((0..cap - len).map(t_n));
            trace.push(Obs::Unit);
        }
        Drain(rs, s, fin) => {
            let (a, b) = match rs.resolve(len) {
                Ok(x) => x,
                Err(()) => return panics(),
            };
            script_trace(&pre[a..b], s, &mut trace);
            v.drain(a..b);
            if fin == Fin::Forget {
                return Exp {
                    panics: false,
                    trace,
                    post: Post::Unspecified,
                };
            }
        }
        MakeContiguous => {
            trace.push(Obs::Tags(pre.clone()));
            trace.push(Obs::Bool(true));
        }
        WriteVia(acc, i) => {
            let pos = match acc {
                Acc::FrontMut => {
                    if i == 0 && len > 0 {
                        Some(0)
                    } else {
                        None
                    }
                }
                Acc::BackMut => {
                    if i == 0 && len > 0 {
                        Some(len - 1)
                    } else {
                        None
                    }
                }
                Acc::NthBackMut | Acc::IterMutRev => {
                    if i < len {
                        Some(len - 1 - i)
                    } else {
                        None
                    }
                }
                _ => {
                    if i < len {
                        Some(i)
                    } else {
                        None
                    }
                }
            };
            match pos {
                Some(p) => {
                    trace.push(Obs::SomeV(v[p]));
                    v[p] = a0;
                }
                None => {
                    if matches!(acc, Acc::IndexMut | Acc::RangeMut) {
                        // indexing out of bounds / range end beyond the length panics
                        return panics();
                    }
                    trace.push(Obs::NoneV);
                }
            }
        }
        CloneFrom(m, _) => {
            let m = m.min(cap);
            v = (0..m).map(|j| t_c(t_a(j))).collect();
            trace.push(Obs::Unit);
            trace.push(Obs::Tags((0..m).map(t_a).collect()));
        }
        IntoIter(s) => {
            script_trace(&pre, s, &mut trace);
            return Exp {
                panics: false,
                trace,
                post: Post::Consumed,
            };
        }
        StepsOn(kind, rs, st) => {
            let (a, b) = if kind == 2 || kind == 3 || kind == 5 || kind == 6 {
                match rs.resolve(len) {
                    Ok(x) => x,
                    Err(()) => return panics(),
                }
            } else {
                (0, len)
            };
            let mut dq: VecDeque<Tag> = pre[a..b].iter().copied().collect();
            trace.push(Obs::Len(dq.len()));
            for i in 0..st.len as usize {
                if let Some((back, want)) = Steps::short_circuit(st.step(i)) {
                    let before = dq.len();
                    let enough = before >= want;
                    let mut last = None;
                    for _ in 0..(if enough { want } else { before }) {
                        last = if back { dq.pop_back() } else { dq.pop_front() };
                    }
                    match st.step(i) {
                        8 | 9 => trace.push(Obs::Yield(if enough { last } else { None })),
                        10 => trace.push(Obs::Str(format!("{:?}", if enough { Some(want - 1) } else { None }))),
                        11 => trace.push(Obs::Str(format!("{:?}", if enough { Some(before - want) } else { None }))),
                        12 => trace.push(Obs::Str(format!("{:?}", enough))),
                        13 => trace.push(Obs::Str(format!("{:?}", !enough))),
                        _ => trace.push(Obs::Str(format!("{:?}", if enough { None } else { Some(before) }))),
                    }
                    trace.push(Obs::Len(dq.len()));
                    continue;
                }
                let (back, skip) = Steps::decode(st.step(i));
                let y = match skip {
                    Some(k) if k < dq.len() => {
                        for _ in 0..k {
                            if back {
                                dq.pop_back();
                            } else {
                                dq.pop_front();
                            }
                        }
                        if back {
                            dq.pop_back()
                        } else {
                            dq.pop_front()
                        }
                    }
                    _ => {
                        dq.clear();
                        None
                    }
                };
                trace.push(Obs::Yield(y));
                trace.push(Obs::Len(dq.len()));
            }
            match kind {
                4 => {
                    return Exp {
                        panics: false,
                        trace,
                        post: Post::Consumed,
                    }
                }
                5 => {
                    v.drain(a..b);
                }
                6 => {
                    return Exp {
                        panics: false,
                        trace,
                        post: Post::Unspecified,
                    }
                }
                _ => return unchanged(trace),
            }
        }
        ExtendFromBuf(m, _) => {
            let m = m.min(cap);
            v.extend((0..m).map(t_a));
            v = last_n(v, cap);
            trace.push(Obs::Unit);
        }
        IntoIterCloneFrom(a, m, b) => {
            let m = m.min(cap);
            let b = b.min(m);
            let _ = a;
            let src: Vec<Tag> = (b..m).map(t_a).collect();
            trace.push(Obs::Tags(src.iter().map(|t| t_c(*t)).collect()));
            trace.push(Obs::Tags(src));
            return Exp {
                panics: false,
                trace,
                post: Post::Consumed,
            };
        }
        DrainDebug(rs, s) => {
            let (a, b) = match rs.resolve(len) {
                Ok(x) => x,
                Err(()) => return panics(),
            };
            let rest = script_trace(&pre[a..b], s, &mut trace);
            let rest: Vec<Tag> = rest.into_iter().collect();
            trace.push(Obs::Str(debug_string(&rest, 0)));
            v.drain(a..b);
        }
        IterDebug(kind, s) => {
            let rest = script_trace(&pre, s, &mut trace);
            let rest: Vec<Tag> = rest.into_iter().collect();
            trace.push(Obs::Str(debug_string(&rest, kind / 4)));
            if kind % 4 == 2 {
                return Exp {
                    panics: false,
                    trace,
                    post: Post::Consumed,
                };
            }
            return unchanged(trace);
        }
        IntoIterClone(s) => {
            let rest: Vec<Tag> = script_trace(&pre, s, &mut trace).into_iter().collect();
            trace.push(Obs::Tags(rest.iter().map(|t| t_c(*t)).collect()));
            trace.push(Obs::Tags(rest));
            return Exp {
                panics: false,
                trace,
                post: Post::Consumed,
            };
        }
        DropBuf => {
            trace.push(Obs::Unit);
            return Exp {
                panics: false,
                trace,
                post: Post::Consumed,
            };
        }
        Get(i) | NthFront(i) => {
            trace.push(if i < len { Obs::SomeV(t_r(i)) } else { Obs::NoneV });
            return unchanged(trace);
        }
        NthBack(i) => {
            trace.push(if i < len {
                Obs::SomeV(t_r(len - 1 - i))
            } else {
                Obs::NoneV
            });
            return unchanged(trace);
        }
        Front => {
            trace.push(if len > 0 { Obs::SomeV(t_r(0)) } else { Obs::NoneV });
            return unchanged(trace);
        }
        Back => {
            trace.push(if len > 0 {
                Obs::SomeV(t_r(len - 1))
            } else {
                Obs::NoneV
            });
            return unchanged(trace);
        }
        Index(i) => {
            if i >= len {
                return panics();
            }
            trace.push(Obs::SomeV(t_r(i)));
            return unchanged(trace);
        }
        Iter(s) | IterMut(s) => {
            script_trace(&pre, s, &mut trace);
            return unchanged(trace);
        }
        Range(rs, s) | RangeMut(rs, s) => {
            let (a, b) = match rs.resolve(len) {
                Ok(x) => x,
                Err(()) => return panics(),
            };
            script_trace(&pre[a..b], s, &mut trace);
            return unchanged(trace);
        }
        AsSlices | AsMutSlices => {
            trace.push(Obs::Tags(pre.clone()));
            return unchanged(trace);
        }
        ToVec | CloneBuf => {
            trace.push(Obs::Tags(pre.iter().map(|t| t_c(*t)).collect()));
            return unchanged(trace);
        }
        DebugFmt(k) => {
            trace.push(Obs::Str(debug_string(&pre, k)));
            return unchanged(trace);
        }
        HashIt => {
            trace.push(Obs::Opaque(0));
            return unchanged(trace);
        }
        EqSelfClone | EqSlice => {
            trace.push(Obs::Bool(true));
            trace.push(Obs::Bool(false)); // `!=`
            return unchanged(trace);
        }
        EqOther(m) => {
            let m = m.min(cap);
            let eq = len == 0 && m == 0;
            trace.push(Obs::Bool(eq));
            trace.push(Obs::Bool(eq)); // other == self
            return unchanged(trace);
        }
        CmpSelfClone => {
            trace.push(Obs::Ord(Some(0)));
            trace.push(Obs::Ord(Some(0)));
            return unchanged(trace);
        }
        CmpOther(m) => {
            let m = m.min(cap);
            let other: Vec<Tag> = (0..m).map(t_a).collect();
            let o = pre.cmp(&other) as i8;
            trace.push(Obs::Ord(Some(o)));
            trace.push(Obs::Ord(Some(o)));
            return unchanged(trace);
        }
    }
    Exp {
        panics: false,
        trace,
        post: Post::Exact(v),
    }
}
