//! Tracked element `E` and the thread-local ledger (DESIGN §3.2), plus the fault injector (§3.6).
//!
//! `E` is a bare `u32` id into the ledger: no heap pointer, so even a *garbage* `E` (a stale bit
//! copy, a fill pattern) can be dropped / cloned / compared without crashing the process; the
//! event is recorded instead.

use std::cell::RefCell;
use std::cmp::Ordering;
use std::fmt;
use std::hash::{Hash, Hasher};

/// Canonical, path-independent name of an element relative to the transition under test.
pub type Tag = u32;
pub const TAG_ARG: Tag = 0x100;
pub const TAG_NEW: Tag = 0x200;
pub const TAG_HELD: Tag = 0x300;
pub const TAG_CLONE: Tag = 0x1_0000;
pub const TAG_DEAD: Tag = 0xDE_AD00;
pub const TAG_GARB: Tag = 0xBA_D000;

pub fn t_r(i: usize) -> Tag {
    i as Tag
}
pub fn t_a(j: usize) -> Tag {
    TAG_ARG + j as Tag
}
pub fn t_n(k: usize) -> Tag {
    TAG_NEW + k as Tag
}
pub fn t_c(t: Tag) -> Tag {
    TAG_CLONE | (t & 0xFFFF)
}
pub fn t_root(t: Tag) -> Tag {
    if t & TAG_CLONE != 0 && t < 0x2_0000 {
        t & 0xFFFF
    } else {
        t
    }
}
pub fn tag_str(t: Tag) -> String {
    if t == TAG_DEAD {
        return "DEAD".into();
    }
    if t == TAG_GARB {
        return "GARBAGE".into();
    }
    if t & TAG_CLONE != 0 && t < 0x2_0000 {
        return format!("c{}", tag_str(t & 0xFFFF));
    }
    match t {
        0..=0xFF => format!("R{}", t),
        0x100..=0x1FF => format!("A{}", t - TAG_ARG),
        0x200..=0x2FF => format!("N{}", t - TAG_NEW),
        0x300..=0x3FF => format!("H{}", t - TAG_HELD),
        _ => format!("?{:x}", t),
    }
}

#[derive(Clone, Copy, PartialEq, Eq, Hash, Debug)]
pub enum FaultKind {
    Drop = 0,
    Clone = 1,
    Closure = 2,
    IterNext = 3,
    Eq = 4,
    PartialCmp = 5,
    Cmp = 6,
}
pub const FAULT_KINDS: [FaultKind; 7] = [
    FaultKind::Drop,
    FaultKind::Clone,
    FaultKind::Closure,
    FaultKind::IterNext,
    FaultKind::Eq,
    FaultKind::PartialCmp,
    FaultKind::Cmp,
];
impl FaultKind {
    pub fn name(self) -> &'static str {
        match self {
            FaultKind::Drop => "drop",
            FaultKind::Clone => "clone",
            FaultKind::Closure => "closure",
            FaultKind::IterNext => "iter_next",
            FaultKind::Eq => "eq",
            FaultKind::PartialCmp => "partial_cmp",
            FaultKind::Cmp => "cmp",
        }
    }
    pub fn from_name(s: &str) -> Option<FaultKind> {
        FAULT_KINDS.iter().copied().find(|k| k.name() == s)
    }
}

#[derive(Clone, PartialEq, Eq, Hash, Debug)]
pub enum Ev {
    Drop(Tag),
    DoubleDrop(Tag, u32),
    GarbageDrop(u32),
    Clone(Tag),
    DeadTouch(&'static str, u32),
    GarbageTouch(&'static str, u32),
}
impl Ev {
    pub fn is_bad(&self) -> bool {
        !matches!(self, Ev::Drop(_) | Ev::Clone(_))
    }
    pub fn show(&self) -> String {
        match self {
            Ev::Drop(t) => format!("drop({})", tag_str(*t)),
            Ev::DoubleDrop(t, id) => format!("DOUBLE-DROP({}, id {})", tag_str(*t), id),
            Ev::GarbageDrop(x) => format!("GARBAGE-DROP(raw {:#x})", x),
            Ev::Clone(t) => format!("clone({})", tag_str(*t)),
            Ev::DeadTouch(k, id) => format!("DEAD-TOUCH({}, id {})", k, id),
            Ev::GarbageTouch(k, x) => format!("GARBAGE-TOUCH({}, raw {:#x})", k, x),
        }
    }
}

#[derive(Clone, Debug)]
struct Ent {
    live: bool,
    drops: u32,
    tag: Tag,
}

pub struct Ledger {
    ents: Vec<Ent>, // index = id; ents[0] is a dummy (id 0 is never valid)
    pub events: Vec<Ev>,
    in_call: bool,
    new_in_call: u32,
    fault: Option<(FaultKind, u32)>,
    pub fired: bool,
    pub counts: [u32; 7],
}

impl Ledger {
    fn new() -> Self {
        Ledger {
            ents: vec![Ent {
                live: false,
                drops: 0,
                tag: TAG_GARB,
            }],
            events: Vec::new(),
            in_call: false,
            new_in_call: 0,
            fault: None,
            fired: false,
            counts: [0; 7],
        }
    }
    fn valid(&self, id: u32) -> bool {
        id != 0 && (id as usize) < self.ents.len()
    }
    fn alloc(&mut self, tag: Tag) -> u32 {
        let id = self.ents.len() as u32;
        self.ents.push(Ent {
            live: true,
            drops: 0,
            tag,
        });
        id
    }
}

thread_local! {
    static LEDGER: RefCell<Ledger> = RefCell::new(Ledger::new());
}

pub fn with<R>(f: impl FnOnce(&mut Ledger) -> R) -> R {
    crate::alloc::paused(|| LEDGER.with(|l| f(&mut l.borrow_mut())))
}

/// Forget everything (called at every rebuild; ids are then allocated deterministically).
pub fn reset() {
    with(|l| *l = Ledger::new());
}

/// Called at a user-code invocation of `kind`; true ⇒ the caller must panic now (once).
pub fn fault_point(kind: FaultKind) -> bool {
    with(|l| {
        l.counts[kind as usize] += 1;
        if let Some((k, n)) = l.fault {
            if k == kind && l.counts[kind as usize] == n {
                l.fault = None;
                l.fired = true;
                return true;
            }
        }
        false
    })
}

pub fn arm(f: Option<(FaultKind, u32)>) {
    with(|l| {
        l.fault = f;
        l.fired = false;
    })
}

pub fn begin_call() {
    with(|l| {
        l.events.clear();
        l.counts = [0; 7];
        l.in_call = true;
        l.new_in_call = 0;
        l.fired = false;
    })
}

pub fn end_call() -> (Vec<Ev>, [u32; 7], bool) {
    with(|l| {
        l.in_call = false;
        l.fault = None;
        (std::mem::take(&mut l.events), l.counts, l.fired)
    })
}

/// Events since the last `take_events`/`begin_call` (used outside calls: final drops).
pub fn take_events() -> Vec<Ev> {
    with(|l| std::mem::take(&mut l.events))
}

pub fn tag_of(id: u32) -> Tag {
    with(|l| {
        if !l.valid(id) {
            TAG_GARB
        } else {
            let e = &l.ents[id as usize];
            if e.live {
                e.tag
            } else {
                TAG_DEAD
            }
        }
    })
}
pub fn is_valid(id: u32) -> bool {
    with(|l| l.valid(id))
}
pub fn is_live(id: u32) -> bool {
    with(|l| l.valid(id) && l.ents[id as usize].live)
}
pub fn live_ids() -> Vec<u32> {
    with(|l| {
        (1..l.ents.len() as u32)
            .filter(|i| l.ents[*i as usize].live)
            .collect()
    })
}
/// After a drain was leaked with `mem::forget`: every live element that is no longer reachable
/// (neither in the buffer nor owned by the caller) is gone for good.  It is marked as such, so that it
/// is not reported as a leak by later steps — and any later touch or drop of it IS reported.
pub fn forgive_unreachable(reachable: &[u32]) -> usize {
    with(|l| {
        let mut n = 0;
        for id in 1..l.ents.len() as u32 {
            if l.ents[id as usize].live && !reachable.contains(&id) {
                l.ents[id as usize].live = false;
                n += 1;
            }
        }
        n
    })
}
pub fn created() -> u32 {
    with(|l| l.ents.len() as u32 - 1)
}
pub fn max_drops() -> u32 {
    with(|l| l.ents.iter().map(|e| e.drops).max().unwrap_or(0))
}

/// Re-label every element relative to the coming transition: buffer contents become `R(rank)`,
/// all other live elements `H(j)` in id order.  Arguments are tagged by `E::arg`.
pub fn relabel(contents: &[u32]) {
    with(|l| {
        let mut h = 0;
        for e in l.ents.iter_mut().skip(1) {
            if e.live {
                e.tag = TAG_HELD + h;
                h += 1;
            }
        }
        for (r, id) in contents.iter().enumerate() {
            if l.valid(*id) && l.ents[*id as usize].live {
                l.ents[*id as usize].tag = t_r(r);
            }
        }
    })
}

/// The element: an id (first field) and, with the `wide` feature, padding that makes it 128 bytes
/// large and 16-byte aligned (so element-size / alignment dependent pointer arithmetic is exercised
/// with something else than a 4-byte element).
#[cfg(not(feature = "wide"))]
#[repr(transparent)]
pub struct E(pub u32);
#[cfg(feature = "wide")]
#[repr(C, align(16))]
pub struct E(pub u32, pub [u32; 29]);

impl E {
    #[inline]
    pub fn raw(id: u32) -> E {
        #[cfg(not(feature = "wide"))]
        {
            E(id)
        }
        #[cfg(feature = "wide")]
        {
            E(id, [0x7777_7777; 29])
        }
    }
}

impl E {
    /// A fresh element created by the harness; inside a crate call (closures, iterators) it is
    /// tagged `N(k)`, outside it gets the given tag.
    pub fn with_tag(tag: Tag) -> E {
        E::raw(with(|l| l.alloc(tag)))
    }
    pub fn in_call_fresh() -> E {
        E::raw(with(|l| {
            let k = l.new_in_call;
            l.new_in_call += 1;
            l.alloc(TAG_NEW + k)
        }))
    }
    pub fn id(&self) -> u32 {
        self.0
    }
}

fn touch(kind: &'static str, id: u32) -> Tag {
    with(|l| {
        if !l.valid(id) {
            l.events.push(Ev::GarbageTouch(kind, id));
            TAG_GARB
        } else if !l.ents[id as usize].live {
            l.events.push(Ev::DeadTouch(kind, id));
            TAG_DEAD
        } else {
            l.ents[id as usize].tag
        }
    })
}

/// With the `plain` feature the element has *no* drop glue (`needs_drop::<E>()` is false), so code
/// paths specialised on that are exercised; destruction is then unobservable and the ownership
/// judgements (leak / dead / double drop) are switched off, everything else stays.
#[cfg(not(feature = "plain"))]
impl Drop for E {
    fn drop(&mut self) {
        let id = self.0;
        let fire = with(|l| {
            if !l.valid(id) {
                l.events.push(Ev::GarbageDrop(id));
                false
            } else {
                let e = &mut l.ents[id as usize];
                e.drops += 1;
                if !e.live {
                    let t = e.tag;
                    l.events.push(Ev::DoubleDrop(t, id));
                    false
                } else {
                    e.live = false;
                    let t = e.tag;
                    l.events.push(Ev::Drop(t));
                    true
                }
            }
        });
        // only the destructor of a live element counts as a user-code invocation
        if fire && fault_point(FaultKind::Drop) {
            panic!("injected fault: drop");
        }
    }
}

impl Clone for E {
    fn clone(&self) -> E {
        if fault_point(FaultKind::Clone) {
            panic!("injected fault: clone");
        }
        let t = touch("clone", self.0);
        with(|l| {
            l.events.push(Ev::Clone(t));
            let tag = if t == TAG_GARB || t == TAG_DEAD { t } else { t_c(t) };
            E::raw(l.alloc(tag))
        })
    }
}

impl PartialEq for E {
    fn eq(&self, o: &E) -> bool {
        if fault_point(FaultKind::Eq) {
            panic!("injected fault: eq");
        }
        let a = touch("eq", self.0);
        let b = touch("eq", o.0);
        t_root(a) == t_root(b)
    }
}
impl Eq for E {}
impl PartialOrd for E {
    fn partial_cmp(&self, o: &E) -> Option<Ordering> {
        if fault_point(FaultKind::PartialCmp) {
            panic!("injected fault: partial_cmp");
        }
        let a = touch("partial_cmp", self.0);
        let b = touch("partial_cmp", o.0);
        t_root(a).partial_cmp(&t_root(b))
    }
}
impl Ord for E {
    fn cmp(&self, o: &E) -> Ordering {
        if fault_point(FaultKind::Cmp) {
            panic!("injected fault: cmp");
        }
        let a = touch("cmp", self.0);
        let b = touch("cmp", o.0);
        t_root(a).cmp(&t_root(b))
    }
}
impl Hash for E {
    fn hash<H: Hasher>(&self, h: &mut H) {
        let a = touch("hash", self.0);
        h.write_u32(t_root(a));
    }
}
/// Debug goes through `debug_tuple`, so formatter flags are honoured; the model's `Te` does the same.
impl fmt::Debug for E {
    fn fmt(&self, f: &mut fmt::Formatter<'_>) -> fmt::Result {
        let a = touch("debug", self.0);
        f.debug_tuple("E").field(&t_root(a)).finish()
    }
}

/// Model twin of `E` for `Debug` comparison.
pub struct Te(pub Tag);
impl fmt::Debug for Te {
    fn fmt(&self, f: &mut fmt::Formatter<'_>) -> fmt::Result {
        f.debug_tuple("E").field(&t_root(self.0)).finish()
    }
}
