//! C18: the `unstable` feature does not change behaviour (DESIGN §4 C18).
//!
//! This module only *produces* a complete, deterministic transcript of a case space: one line per
//! (history, action, fault point) with everything observable.  /verif/check builds the harness in
//! the configurations {nightly/default, nightly/unstable, stable/default}, lets the first one
//! choose the histories (BFS recipes), replays the very same histories in the others, and compares
//! the transcripts line by line.

use crate::act::*;
use crate::checks::Opts;
use crate::explore::*;
use crate::faults::{battery, ctor_fault_case, fault_alphabet};
use crate::exec::*;
use crate::ledger::{FaultKind, FAULT_KINDS};
use crate::model;
use crate::spaces::c04_alphabet;
use std::io::Write;

fn outcome_line(rec: &StepRec, fin: &[Problem]) -> String {
    // in program order: the property demands *exactly* the same lifecycle events in both builds
    let ev: Vec<String> = rec.events.iter().map(|e| e.show()).collect();
    format!(
        "{} <{}> contents {} len={} empty={} full={} events[{}] user-calls{:?} final[{}]",
        if rec.panicked { "panicked" } else { "returned" },
        model::show_trace(&rec.trace),
        model::show_tags(&rec.post_tags),
        rec.post.len,
        rec.post.is_empty,
        rec.post.is_full,
        ev.join(","),
        rec.counts,
        fin.iter().map(|p| p.kind.name()).collect::<Vec<_>>().join(",")
    )
}

/// everything observable about (recipe, act, fault), incl. a follow-up battery after a fault
pub fn transcript_case<const N: usize>(recipe: &Recipe, act: &Act, fault: Option<(FaultKind, u32)>) -> (String, [u32; 7]) {
    crate::set_case(&format!("n={}|ctor={}|recipe={}|filling=none|act={}|fault={}", N, recipe.ctor, recipe.acts_str(), act, show_fault(fault)));
    let mut sut = rebuild::<N>(recipe);
    let mut keep: Hold<N> = Hold::default();
    let rec = exec_step(&mut sut, act, fault, &mut keep);
    let counts = rec.counts;
    let mut s = String::new();
    if fault.is_some() && !rec.consumed && rec.post.ok {
        // behaviour after the caught panic is part of the behaviour
        for a in battery(N) {
            let r = exec_step(&mut sut, &a, None, &mut keep);
            s.push_str(&format!(" | {}: {} <{}> {}", a, if r.panicked { "panicked" } else { "returned" }, model::show_trace(&r.trace), model::show_tags(&r.post_tags)));
            keep.elems.clear();
        }
    }
    let fin = final_drop(sut, keep);
    (format!("{}{}", outcome_line(&rec, &fin), s), counts)
}

pub fn c18_transcript<const N: usize>(o: &Opts, recipes_in: Option<Vec<Recipe>>, out: &mut dyn Write, recipes_out: &mut dyn Write) -> (u64, u64) {
    let recipes: Vec<Recipe> = match recipes_in {
        Some(r) => r,
        None => {
            let mode = if o.thorough() && N <= 4 { KeyMode::Fine } else { KeyMode::Layout };
            let mut cb = |_i: usize, _st: &State, _a: &Act, _t: &Trans| {};
            let sp = explore::<N>(mode, &Limits::default(), &grow_alphabet, &mut cb);
            sp.states.iter().map(|s| s.recipe.clone()).collect()
        }
    };
    let mut lines = 0u64;
    for r in &recipes {
        let _ = writeln!(recipes_out, "{}\t{}", r.ctor, r.acts_str());
    }
    for (i, r) in recipes.iter().enumerate() {
        if !o.mine(i) {
            continue;
        }
        let len = {
            let s = rebuild::<N>(r);
            s.bref().len()
        };
        // 0 deviations: the complete alphabet (C01–C04, C07–C12 case spaces)
        let mut acts = c04_alphabet(N, len);
        for a in 0..=len {
            for b in a..=len {
                for s in Script::all_up_to((b - a + 1).min(3)) {
                    acts.push(Act::Drain(Rs::half_open(a, b), s, Fin::Drop));
                    acts.push(Act::Drain(Rs::half_open(a, b), s, Fin::Forget));
                }
            }
        }
        for rs in all_ranges(N) {
            acts.push(Act::Range(rs, Script::all_front(2)));
            acts.push(Act::Drain(rs, Script::all_back(1), Fin::Drop));
        }
        for act in &acts {
            let (line, _) = transcript_case::<N>(r, act, None);
            let _ = writeln!(out, "{}\t{}\t{}\tnone\t{}", r.ctor, r.acts_str(), act, line);
            lines += 1;
        }
        // 1 deviation: C05 / C06 fault spaces
        for prop in ["C05", "C06"] {
            for (act, kinds) in fault_alphabet(prop, N, len) {
                let (_, counts) = transcript_case::<N>(r, &act, None);
                for kind in kinds {
                    for k in 1..=counts[kind as usize] {
                        let (line, _) = transcript_case::<N>(r, &act, Some((kind, k)));
                        let _ = writeln!(out, "{}\t{}\t{}\t{}#{}\t{}", r.ctor, r.acts_str(), act, kind.name(), k, line);
                        lines += 1;
                    }
                }
            }
        }
    }
    // constructors under faults (From<[T; M]> has an `unstable` variant)
    if o.shard.0 == 0 {
        for m in 0..=(2 * N + 1).min(crate::sut::MAX_FROM_ARRAY) {
            for (ctor, kind, prop) in [(Ctor::FromArray(m), FaultKind::Drop, "C05"), (Ctor::FromIter(m), FaultKind::Drop, "C05"), (Ctor::FromIter(m), FaultKind::IterNext, "C06")] {
                let (_, counts, _, summary) = ctor_fault_case::<N>(prop, ctor, None);
                let _ = writeln!(out, "{}\t\tctor\tnone\t{}", ctor, summary);
                lines += 1;
                for k in 1..=counts[kind as usize] {
                    let (_, _, probs, summary) = ctor_fault_case::<N>(prop, ctor, Some((kind, k)));
                    let _ = writeln!(out, "{}\t\tctor\t{}#{}\t{} problems[{}]", ctor, kind.name(), k, summary, probs.iter().map(|p| p.0.kind.name()).collect::<Vec<_>>().join(","));
                    lines += 1;
                }
            }
        }
    }
    // ---- the other element types (the property says "every operation"): byte buffers through the I/O traits,
    // zero-sized elements in every layout of this capacity (incl. clone/destructor faults), and — once, in the
    // N = 0 job — zero-sized elements at the extreme capacities.  These histories are fixed lists, so all builds
    // run the same ones without exchanging recipes.
    if N <= 6 {
        let cases = crate::io::c18_io_cases(N);
        for (i, (recipe, acts)) in cases.iter().enumerate() {
            if !o.mine(i) {
                continue;
            }
            for act in acts {
                let line = crate::io::c18_io_line::<N>(recipe, act);
                let _ = writeln!(out, "io\t{}\t{}\tnone\t{}", crate::io::c18_recipe_str(recipe), act.show(), line);
                lines += 1;
            }
        }
        let mut i = 0usize;
        for rot in 0..N.max(1) {
            for len in 0..=N {
                i += 1;
                if !o.mine(i) {
                    continue;
                }
                for (op, cf, df) in crate::zst::all_ops(N, len) {
                    let mut one = |fault: Option<(u8, u32)>, lines: &mut u64| -> (u32, u32) {
                        let shown = match fault {
                            None => "none".to_string(),
                            Some((0, k)) => format!("clone#{}", k),
                            Some((_, k)) => format!("drop#{}", k),
                        };
                        crate::set_case(&format!("n={}|ctor=zst|recipe={},{}|filling=none|act={}|fault={}|extra=c18", N, rot, len, op.show(), shown));
                        let (probs, clones, drops) = crate::zst::zst_case::<N>(rot, len, op, fault);
                        let _ = writeln!(out, "zst\t{},{}\t{}\t{}\tclone-calls {} destructor-calls {} problems {:?}", rot, len, op.show(), shown, clones, drops, probs);
                        *lines += 1;
                        (clones, drops)
                    };
                    let (clones, drops) = one(None, &mut lines);
                    if cf {
                        for k in 1..=clones {
                            one(Some((0, k)), &mut lines);
                        }
                    }
                    if df {
                        for k in 1..=drops {
                            one(Some((1, k)), &mut lines);
                        }
                    }
                }
            }
        }
    }
    if N == 0 && o.shard.0 == 0 {
        lines += crate::c19::c18_lines(if o.thorough() { 3 } else { 2 }, out);
    }
    let _ = FAULT_KINDS;
    (recipes.len() as u64, lines)
}
