//! Explicit-state breadth-first exploration of the real code (DESIGN §2, §3.4, §3.5).
//!
//! A state is a *recipe* (constructor + action list) plus the canonical key of the memory image it
//! produces.  Expanding a state = rebuilding a fresh object by replaying the recipe on the real
//! code, then applying one action.  Search runs to a fixpoint (or reports the cap it hit).

use crate::act::*;
use crate::exec::*;
use crate::ledger::{self, FaultKind, E};
use crate::model::{self, Exp};
use crate::report::*;
use crate::sut::*;
use std::collections::HashMap;

#[derive(Clone, Debug, PartialEq, Eq, Hash)]
pub struct Recipe {
    pub ctor: Ctor,
    pub acts: Vec<Act>,
}
impl Recipe {
    pub fn show(&self) -> String {
        let mut s = self.ctor.to_string();
        for a in &self.acts {
            s.push_str("; ");
            s.push_str(&a.to_string());
        }
        s
    }
    pub fn acts_str(&self) -> String {
        self.acts.iter().map(|a| a.to_string()).collect::<Vec<_>>().join(";")
    }
    pub fn parse(ctor: &str, acts: &str) -> Option<Recipe> {
        let ctor = Ctor::parse(ctor)?;
        let mut v = vec![];
        for a in acts.split(';') {
            let a = a.trim();
            if a.is_empty() {
                continue;
            }
            v.push(Act::parse(a)?);
        }
        Some(Recipe { ctor, acts: v })
    }
}

/// What to put into the unoccupied slots before the action under test.
#[derive(Clone, Copy, PartialEq, Eq, Hash, Debug)]
pub enum Plant {
    P00,
    PFF,
    P5A,
    Dead,
    Held,
    Dup(u8),
}
pub const UNIFORM_PLANTS: [Plant; 6] = [Plant::P00, Plant::PFF, Plant::P5A, Plant::Dead, Plant::Held, Plant::Dup(0)];
impl Plant {
    pub fn show(&self) -> String {
        match self {
            Plant::P00 => "00".into(),
            Plant::PFF => "ff".into(),
            Plant::P5A => "5a".into(),
            Plant::Dead => "dead".into(),
            Plant::Held => "held".into(),
            Plant::Dup(r) => format!("dup{}", r),
        }
    }
    pub fn parse(s: &str) -> Option<Plant> {
        Some(match s {
            "00" => Plant::P00,
            "ff" => Plant::PFF,
            "5a" => Plant::P5A,
            "dead" => Plant::Dead,
            "held" => Plant::Held,
            _ => Plant::Dup(s.strip_prefix("dup")?.parse().ok()?),
        })
    }
}
pub fn show_filling(f: &[Plant]) -> String {
    if f.is_empty() {
        "none".into()
    } else {
        f.iter().map(|p| p.show()).collect::<Vec<_>>().join(",")
    }
}
pub fn parse_filling(s: &str) -> Option<Vec<Plant>> {
    if s == "none" || s.is_empty() {
        return Some(vec![]);
    }
    s.split(',').map(Plant::parse).collect()
}

pub fn rebuild<const N: usize>(r: &Recipe) -> Sut<N> {
    ledger::reset();
    let mut s = Sut::<N>::construct(r.ctor);
    for a in &r.acts {
        apply_fast(&mut s, a);
    }
    let _ = ledger::take_events();
    s
}

/// Overwrite the free slots (ascending slot order, filling repeated cyclically) with planted garbage.
pub fn plant<const N: usize>(sut: &mut Sut<N>, filling: &[Plant], keep: &mut Hold<N>) {
    if filling.is_empty() {
        return;
    }
    let ids = sut.ids();
    let free = sut.free_slots();
    let dead_id = {
        let e = E::with_tag(ledger::TAG_HELD);
        let id = e.0;
        drop(e);
        id
    };
    let mut held_id = None;
    for (k, p) in free.iter().enumerate() {
        let v = match filling[k % filling.len()] {
            Plant::P00 => 0,
            Plant::PFF => 0xFFFF_FFFF,
            Plant::P5A => 0x5A5A_5A5A,
            Plant::Dead => dead_id,
            Plant::Held => *held_id.get_or_insert_with(|| {
                let e = E::with_tag(ledger::TAG_HELD);
                let id = e.0;
                keep.elems.push(e);
                id
            }),
            Plant::Dup(r) => {
                if ids.is_empty() {
                    dead_id
                } else {
                    ids[r as usize % ids.len()]
                }
            }
        };
        sut.write_slot(*p, v);
    }
    let _ = ledger::take_events();
}

pub fn show_fault(f: Option<(FaultKind, u32)>) -> String {
    match f {
        None => "none".to_string(),
        Some((k, i)) => format!("{}#{}", k.name(), i),
    }
}
pub fn parse_fault(s: &str) -> Option<Option<(FaultKind, u32)>> {
    if s == "none" || s.is_empty() {
        return Some(None);
    }
    let (k, i) = s.split_once('#')?;
    Some(Some((FaultKind::from_name(k)?, i.parse().ok()?)))
}

pub struct Trans {
    pub rec: StepRec,
    pub exp: Exp,
    /// judgements about the step itself
    pub problems: Vec<Problem>,
    /// judgements about dropping everything afterwards
    pub final_problems: Vec<Problem>,
}

/// One fully checked transition from the state described by `recipe` (+ planted garbage).
pub fn transition<const N: usize>(
    recipe: &Recipe,
    filling: &[Plant],
    act: &Act,
    fault: Option<(FaultKind, u32)>,
) -> Trans {
    crate::set_case(&format!(
        "n={}|ctor={}|recipe={}|filling={}|act={}|fault={}",
        N,
        recipe.ctor,
        recipe.acts_str(),
        show_filling(filling),
        act,
        show_fault(fault)
    ));
    let mut sut = rebuild::<N>(recipe);
    let mut keep: Hold<N> = Hold::default();
    plant(&mut sut, filling, &mut keep);
    let rec = exec_step(&mut sut, act, fault, &mut keep);
    let exp = model::expect(N, rec.pre.len, act);
    let problems = if fault.is_none() { judge(&rec, &exp) } else { vec![] };
    let final_problems = final_drop(sut, keep);
    Trans {
        rec,
        exp,
        problems,
        final_problems,
    }
}

#[derive(Clone, Copy, PartialEq, Eq, Debug)]
pub enum KeyMode {
    Fine,
    Layout,
}
pub fn key_of(mode: KeyMode, s: &Snap) -> Vec<u8> {
    match mode {
        KeyMode::Fine => key_fine(s),
        KeyMode::Layout => key_layout(s),
    }
}

#[derive(Clone, Debug)]
pub struct State {
    pub recipe: Recipe,
    pub key: Vec<u8>,
    pub depth: usize,
    pub len: usize,
    /// (slot of the front element or usize::MAX when empty, len): the physical layout
    pub layout: (usize, usize),
    pub classes: String,
}

pub struct Space {
    pub states: Vec<State>,
    pub index: HashMap<Vec<u8>, usize>,
    pub fixpoint: bool,
    pub cap_hit: Option<String>,
    pub grow_transitions: u64,
    pub layouts: usize,
    pub expected_layouts: usize,
}

pub fn roots(n: usize) -> Vec<Ctor> {
    let mut v = vec![Ctor::New, Ctor::Default];
    if cfg!(feature = "alloc") {
        v.insert(0, Ctor::Boxed);
    }
    for m in 0..=(n + 1).min(MAX_FROM_ARRAY) {
        v.push(Ctor::FromArray(m));
        v.push(Ctor::FromIter(m));
    }
    v
}

/// The mutator alphabet used to *reach* states (every (state, action) pair is also handed to `cb`).
pub fn grow_alphabet(n: usize, len: usize) -> Vec<Act> {
    use Act::*;
    let idx = idx_domain(n);
    let mut v = vec![PushBack, PushFront, TryPushBack, TryPushFront, PopBack, PopFront];
    for &i in &idx {
        v.extend([Remove(i), SwapRemoveBack(i), SwapRemoveFront(i), TruncateBack(i), TruncateFront(i)]);
    }
    for &i in &idx {
        for &j in &idx {
            v.push(Swap(i, j));
        }
    }
    v.push(Clear);
    for mm in 0..=2 * n + 1 {
        v.push(Extend(mm));
        v.push(ExtendFromSlice(mm));
        // the iterator's size_hint is part of the input: exact, loose upper bound, lower bound only
        for h in [0, 2, 3, 4, 5, 6, 7] {
            v.push(ExtendHint(mm, h));
        }
        v.push(ExtendPairs(mm));
    }
    v.extend([Fill, FillWith, FillSpare, FillSpareWith, MakeContiguous]);
    // drains: every valid half-open range, three scripts
    for a in 0..=len {
        for b in a..=len {
            let l = b - a;
            v.push(Drain(Rs::half_open(a, b), Script::empty(), Fin::Drop));
            if l > 0 {
                v.push(Drain(Rs::half_open(a, b), Script::all_front(l + 1), Fin::Drop));
                v.push(Drain(Rs::half_open(a, b), Script::all_back(l + 1), Fin::Drop));
            }
        }
    }
    // leaking a drain is a legal step of a history too (documented); what is left is unspecified, so
    // the state it leads to is whatever the implementation leaves behind
    for (a, b) in [(0, len), (0, len.min(1)), (len / 2, len), (len.min(1), len)] {
        if a <= b {
            v.push(Drain(Rs::half_open(a, b), Script::empty(), Fin::Forget));
            if b > a {
                v.push(Drain(Rs::half_open(a, b), Script::all_front(1), Fin::Forget));
                v.push(Drain(Rs::half_open(a, b), Script::all_back(1), Fin::Forget));
            }
        }
    }
    for acc in ACCS {
        match acc {
            Acc::FrontMut | Acc::BackMut => v.push(WriteVia(acc, 0)),
            _ => {
                for &i in &idx {
                    v.push(WriteVia(acc, i))
                }
            }
        }
    }
    for mm in 0..=n {
        v.push(CloneFrom(mm, 0));
        v.push(ExtendFromBuf(mm, 0));
        if n > 1 {
            v.push(CloneFrom(mm, n - 1));
            v.push(ExtendFromBuf(mm, n - 1));
        }
    }
    v
}

/// nth / nth_back enriched step sequences (probes): `kinds` are StepsOn source kinds; ranges are all
/// valid half-open ranges for the range-taking kinds
pub fn steps_probes(n: usize, len: usize, kinds: &[usize], max_len: usize) -> Vec<Act> {
    let max_len = if n > 8 { max_len.min(2) } else { max_len };
    let seqs = Steps::all_up_to(max_len);
    let mut v = vec![];
    for &k in kinds {
        if k == 2 || k == 3 || k == 5 || k == 6 {
            for a in 0..=len {
                for b in a..=len {
                    for st in &seqs {
                        v.push(Act::StepsOn(k, Rs::half_open(a, b), *st));
                    }
                }
            }
        } else {
            for st in &seqs {
                v.push(Act::StepsOn(k, Rs { sk: 2, a: 0, ek: 2, b: 0 }, *st));
            }
        }
    }
    v
}

pub struct Limits {
    pub max_states: usize,
    pub max_secs: f64,
}
impl Default for Limits {
    fn default() -> Self {
        Limits {
            max_states: 400_000,
            max_secs: 3000.0,
        }
    }
}

/// BFS to fixpoint.  `cb(state_index, state, act, trans)` is called for every executed (state, action).
pub fn explore<const N: usize>(
    mode: KeyMode,
    limits: &Limits,
    alphabet: &dyn Fn(usize, usize) -> Vec<Act>,
    cb: &mut dyn FnMut(usize, &State, &Act, &Trans),
) -> Space {
    explore_dup::<N>(mode, limits, alphabet, cb, &mut |_, _| {})
}

/// Like `explore`, and additionally reports every *convergence*: a recipe that reaches an already
/// known key by a different path (`dup(index of the representative state, newcomer recipe)`).
pub fn explore_dup<const N: usize>(
    mode: KeyMode,
    limits: &Limits,
    alphabet: &dyn Fn(usize, usize) -> Vec<Act>,
    cb: &mut dyn FnMut(usize, &State, &Act, &Trans),
    dup: &mut dyn FnMut(usize, &Recipe),
) -> Space {
    let t0 = std::time::Instant::now();
    let mut sp = Space {
        states: vec![],
        index: HashMap::new(),
        fixpoint: false,
        cap_hit: None,
        grow_transitions: 0,
        layouts: 0,
        expected_layouts: if N == 0 { 1 } else { N * (N + 1) },
    };
    let mut add = |sp: &mut Space, recipe: Recipe, snap: &Snap, depth: usize| -> bool {
        let key = key_of(mode, snap);
        if let Some(ix) = sp.index.get(&key) {
            dup(*ix, &recipe);
            return false;
        }
        let front = snap.occ().first().copied().unwrap_or(usize::MAX);
        sp.index.insert(key.clone(), sp.states.len());
        sp.states.push(State {
            recipe,
            key,
            depth,
            len: snap.len,
            layout: (front, snap.len),
            classes: show_classes(snap),
        });
        true
    };
    for c in roots(N) {
        let r = Recipe { ctor: c, acts: vec![] };
        let s = rebuild::<N>(&r);
        let snap = s.snap();
        if snap.views_agree().is_ok() {
            add(&mut sp, r, &snap, 0);
        }
        drop(s);
    }
    let mut i = 0;
    while i < sp.states.len() {
        if sp.states.len() > limits.max_states {
            sp.cap_hit = Some(format!("state cap {} hit", limits.max_states));
            break;
        }
        if t0.elapsed().as_secs_f64() > limits.max_secs {
            sp.cap_hit = Some(format!("time cap {}s hit", limits.max_secs));
            break;
        }
        let st = sp.states[i].clone();
        for act in alphabet(N, st.len) {
            let tr = transition::<N>(&st.recipe, &[], &act, None);
            sp.grow_transitions += 1;
            cb(i, &st, &act, &tr);
            let ok = !tr.rec.panicked
                && !tr.rec.consumed
                && tr.rec.post.views_agree().is_ok()
                && tr.problems.iter().all(|p| p.kind == PKind::Alloc || p.kind == PKind::Reloc);
            if ok {
                let mut r = st.recipe.clone();
                r.acts.push(act);
                add(&mut sp, r, &tr.rec.post, st.depth + 1);
            }
        }
        i += 1;
    }
    sp.fixpoint = sp.cap_hit.is_none();
    let mut lay: Vec<(usize, usize)> = sp
        .states
        .iter()
        .map(|s| if s.len == 0 && N > 0 { s.layout } else { s.layout })
        .collect();
    lay.sort();
    lay.dedup();
    // count distinct (front slot, len) with len >= 1, plus empty states counted once per front… the
    // front of an empty buffer is not observable through the API, so empties count as one layout.
    let nonempty = lay.iter().filter(|l| l.1 > 0).count();
    sp.layouts = nonempty + usize::from(lay.iter().any(|l| l.1 == 0));
    sp.expected_layouts = if N == 0 { 1 } else { N * N + 1 };
    sp
}

/// Convenience used by most checks: record a violation for each selected problem.
pub fn record(
    rep: &mut Report,
    n: usize,
    recipe: &Recipe,
    filling: &[Plant],
    act: &Act,
    fault: Option<(FaultKind, u32)>,
    p: &Problem,
    stage: &str,
) {
    let sig = format!(
        "N={}:{}:{}{}{}",
        n,
        act.name(),
        p.kind.name(),
        if stage.is_empty() { String::new() } else { format!("@{}", stage) },
        match fault {
            None => String::new(),
            Some((k, _)) => format!(":fault={}", k.name()),
        }
    );
    rep.violation(Violation {
        sig,
        detail: format!(
            "N={} state <{}> filling <{}> action {} fault {}: {}",
            n,
            recipe.show(),
            show_filling(filling),
            act,
            match fault {
                None => "none".to_string(),
                Some((k, i)) => format!("{}#{}", k.name(), i),
            },
            p.detail
        ),
        replay: ReplayCase {
            n,
            ctor: recipe.ctor.to_string(),
            recipe: recipe.acts_str(),
            filling: show_filling(filling),
            act: act.to_string(),
            fault: match fault {
                None => "none".to_string(),
                Some((k, i)) => format!("{}#{}", k.name(), i),
            },
            extra: String::new(),
        },
    });
}
