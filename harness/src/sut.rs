//! The system under test: a boxed `CircularBuffer<N, E>` whose memory image the harness can read
//! (state keys) and whose unoccupied slots it can overwrite (planted garbage).  DESIGN §3.1, §3.4.
//!
//! Public API only.  The physical layout is *observed* (addresses of elements relative to the box),
//! never assumed; nothing here is an expectation about the layout.

use crate::act::Ctor;
use crate::ledger::{self, E};
use circular_buffer::CircularBuffer;
use std::cell::RefCell;
use std::collections::HashMap;
use std::panic::{catch_unwind, AssertUnwindSafe};

pub type Cb<const N: usize> = CircularBuffer<N, E>;

#[derive(Clone, Debug)]
pub struct Calib {
    pub size: usize,
    pub items_off: usize,
    pub stride: usize,
    /// byte offsets outside the slot array that are written by the constructor (= header fields)
    pub header: Vec<usize>,
    pub note: String,
}

thread_local! {
    static CALIB: RefCell<HashMap<usize, Calib>> = RefCell::new(HashMap::new());
}

fn new_box<const N: usize>() -> Box<Cb<N>> {
    #[cfg(feature = "alloc")]
    {
        Cb::<N>::boxed()
    }
    #[cfg(not(feature = "alloc"))]
    {
        Box::new(Cb::<N>::new())
    }
}

fn raw_bytes<const N: usize>(b: &Cb<N>) -> Vec<u8> {
    let p = b as *const Cb<N> as *const u8;
    (0..std::mem::size_of::<Cb<N>>())
        .map(|i| unsafe { std::ptr::read_volatile(p.add(i)) })
        .collect()
}

pub fn calib<const N: usize>() -> Calib {
    if let Some(c) = CALIB.with(|c| c.borrow().get(&N).cloned()) {
        return c;
    }
    let size = std::mem::size_of::<Cb<N>>();
    let stride = std::mem::size_of::<E>();
    // 1. where are the slots?  fill a buffer, take the minimum element address.
    let mut items_off = size;
    if N > 0 {
        let mut b = new_box::<N>();
        for _ in 0..N {
            b.push_back(E::raw(0)); // garbage ids: dropping them only logs
        }
        let base = &*b as *const Cb<N> as usize;
        let mut offs: Vec<usize> = b.iter().map(|e| e as *const E as usize - base).collect();
        offs.sort();
        items_off = offs[0];
        for (p, o) in offs.iter().enumerate() {
            assert_eq!(
                *o,
                items_off + p * stride,
                "calibration: element addresses of a full buffer are not an arithmetic progression"
            );
        }
        assert!(items_off + N * stride <= size);
        drop(b);
    }
    // 2. which bytes outside the slot array are header fields (written by the constructor)?
    let outside: Vec<usize> = (0..size)
        .filter(|o| *o < items_off || *o >= items_off + N * stride)
        .collect();
    #[allow(unused_mut)]
    let mut header = outside.clone();
    #[allow(unused_mut)]
    let mut note = String::from("header = all bytes outside the slot array");
    #[cfg(feature = "alloc")]
    {
        let old = crate::alloc::set_fill(0xA5);
        let b1 = Cb::<N>::boxed();
        let i1 = raw_bytes(&*b1);
        crate::alloc::set_fill(0x3C);
        let b2 = Cb::<N>::boxed();
        let i2 = raw_bytes(&*b2);
        crate::alloc::set_fill(old);
        // only trust the experiment if the slot array really shows the fill patterns
        let slots_ok = N == 0
            || (0..N * stride).all(|k| i1[items_off + k] == 0xA5 && i2[items_off + k] == 0x3C);
        if slots_ok {
            header = outside
                .iter()
                .copied()
                .filter(|o| !(i1[*o] == 0xA5 && i2[*o] == 0x3C))
                .collect();
            note = format!(
                "header = {} bytes written by boxed() out of {} bytes outside the slot array (rest is padding)",
                header.len(),
                outside.len()
            );
        }
    }
    let c = Calib {
        size,
        items_off,
        stride,
        header,
        note,
    };
    CALIB.with(|m| m.borrow_mut().insert(N, c.clone()));
    ledger::reset();
    c
}

/// Everything observable about a buffer at rest, through the public API, plus its memory image.
#[derive(Clone, Debug, Default)]
pub struct Snap {
    pub ok: bool,
    pub err: String,
    pub header: Vec<u8>,
    pub raw: Vec<u32>,
    pub len: usize,
    pub cap: usize,
    pub is_empty: bool,
    pub is_full: bool,
    /// ids in iteration order
    pub iter: Vec<u32>,
    /// `get(i)` for i in 0..N+2 (ids)
    pub gets: Vec<Option<u32>>,
    /// physical slot of each element of `as_slices().0` / `.1`
    pub s0: Vec<usize>,
    pub s1: Vec<usize>,
    pub slice_ids: Vec<u32>,
}

impl Snap {
    /// slot of the element at each rank, as reported by `as_slices`
    pub fn occ(&self) -> Vec<usize> {
        let mut v = self.s0.clone();
        v.extend(self.s1.iter().copied());
        v
    }
    /// all read-only views agree with each other
    pub fn views_agree(&self) -> Result<(), String> {
        if !self.ok {
            return Err(format!("snapshot failed: {}", self.err));
        }
        if self.len > self.cap {
            return Err(format!("len {} > capacity {}", self.len, self.cap));
        }
        if self.iter.len() != self.len {
            return Err(format!("iter yields {} items, len() = {}", self.iter.len(), self.len));
        }
        if self.is_empty != (self.len == 0) || self.is_full != (self.len == self.cap) {
            return Err(format!(
                "len()={} is_empty()={} is_full()={} capacity={}",
                self.len, self.is_empty, self.is_full, self.cap
            ));
        }
        if self.slice_ids != self.iter {
            return Err(format!("as_slices {:?} != iter {:?}", self.slice_ids, self.iter));
        }
        for (i, g) in self.gets.iter().enumerate() {
            let want = self.iter.get(i).copied();
            if *g != want {
                return Err(format!("get({}) = {:?}, iter says {:?}", i, g, want));
            }
        }
        let mut occ = self.occ();
        occ.sort();
        occ.dedup();
        if occ.len() != self.len {
            return Err("as_slices reports overlapping or out-of-array elements".into());
        }
        Ok(())
    }
}

pub struct Sut<const N: usize> {
    pub b: Option<Box<Cb<N>>>,
    pub cal: Calib,
}

pub fn make_array<const M: usize>() -> [E; M] {
    core::array::from_fn(|j| E::with_tag(ledger::t_a(j)))
}

macro_rules! from_array_dispatch {
    ($n:ident, $m:expr; $($k:literal)*) => {
        match $m {
            $($k => Box::new(Cb::<$n>::from(make_array::<$k>())),)*
            _ => panic!("from_array: M out of supported range"),
        }
    };
}

pub const MAX_FROM_ARRAY: usize = 19;

impl<const N: usize> Sut<N> {
    pub fn construct(c: Ctor) -> Sut<N> {
        let cal = calib::<N>();
        let b: Box<Cb<N>> = match c {
            Ctor::Boxed => new_box::<N>(),
            Ctor::New => Box::new(Cb::<N>::new()),
            Ctor::Default => Box::new(Cb::<N>::default()),
            Ctor::FromIter(m) => Box::new(
                (0..m)
                    .map(|j| E::with_tag(ledger::t_a(j)))
                    .collect::<Cb<N>>(),
            ),
            Ctor::FromIterHint(m, hint) => {
                let v: Vec<E> = (0..m).map(|j| E::with_tag(ledger::t_a(j))).collect();
                Box::new(crate::exec::FaultyIter { inner: v.into_iter(), hint, slack: 2 * N + 3 }.collect::<Cb<N>>())
            }
            Ctor::FromArray(m) => {
                from_array_dispatch!(N, m; 0 1 2 3 4 5 6 7 8 9 10 11 12 13 14 15 16 17 18 19)
            }
        };
        let mut s = Sut { b: Some(b), cal };
        // normalise whatever the constructor left in the unoccupied slots
        s.plant_all(0x5A5A_5A5A);
        s
    }
    pub fn buf(&mut self) -> &mut Cb<N> {
        self.b.as_mut().expect("buffer consumed")
    }
    pub fn bref(&self) -> &Cb<N> {
        self.b.as_ref().expect("buffer consumed")
    }
    pub fn base(&self) -> usize {
        &**self.b.as_ref().unwrap() as *const Cb<N> as usize
    }
    pub fn slot_of(&self, e: &E) -> usize {
        let off = (e as *const E as usize).wrapping_sub(self.base());
        if off < self.cal.items_off || (off - self.cal.items_off) % self.cal.stride != 0 {
            return usize::MAX;
        }
        let p = (off - self.cal.items_off) / self.cal.stride;
        if p < N {
            p
        } else {
            usize::MAX
        }
    }
    pub fn raw_slot(&self, p: usize) -> u32 {
        assert!(p < N);
        let ptr = (self.base() + self.cal.items_off + p * self.cal.stride) as *const u32;
        unsafe { std::ptr::read_volatile(ptr) }
    }
    /// Overwrite a slot that is currently *unoccupied* (caller's responsibility).
    pub fn write_slot(&mut self, p: usize, v: u32) {
        assert!(p < N);
        let base = &mut **self.b.as_mut().unwrap() as *mut Cb<N> as usize;
        let ptr = (base + self.cal.items_off + p * self.cal.stride) as *mut u32;
        unsafe { std::ptr::write_volatile(ptr, v) }
    }
    pub fn header(&self) -> Vec<u8> {
        let p = self.base() as *const u8;
        self.cal
            .header
            .iter()
            .map(|o| unsafe { std::ptr::read_volatile(p.add(*o)) })
            .collect()
    }
    /// slots the buffer currently reports as occupied (via `as_slices`)
    pub fn occupied(&self) -> Vec<usize> {
        let (a, b) = self.bref().as_slices();
        a.iter().chain(b.iter()).map(|e| self.slot_of(e)).collect()
    }
    pub fn free_slots(&self) -> Vec<usize> {
        let occ = self.occupied();
        (0..N).filter(|p| !occ.contains(p)).collect()
    }
    pub fn plant_all(&mut self, v: u32) {
        for p in self.free_slots() {
            self.write_slot(p, v);
        }
    }
    /// ids of the contents, read without going through any of `E`'s trait impls
    pub fn ids(&self) -> Vec<u32> {
        self.bref().iter().map(|e| e.0).collect()
    }

    pub fn snap(&self) -> Snap {
        let r = catch_unwind(AssertUnwindSafe(|| {
            let b = self.bref();
            let mut s = Snap {
                ok: true,
                ..Default::default()
            };
            s.header = self.header();
            s.raw = (0..N).map(|p| self.raw_slot(p)).collect();
            s.len = b.len();
            s.cap = b.capacity();
            if s.cap != N {
                panic!("capacity() returns {} for CircularBuffer<{}, _>", s.cap, N);
            }
            s.is_empty = b.is_empty();
            s.is_full = b.is_full();
            s.iter = b.iter().take(N + 2).map(|e| e.0).collect();
            s.gets = (0..N + 2).map(|i| b.get(i).map(|e| e.0)).collect();
            let (x, y) = b.as_slices();
            s.s0 = x.iter().take(N + 2).map(|e| self.slot_of(e)).collect();
            s.s1 = y.iter().take(N + 2).map(|e| self.slot_of(e)).collect();
            s.slice_ids = x.iter().chain(y.iter()).take(N + 2).map(|e| e.0).collect();
            s
        }));
        match r {
            Ok(s) => s,
            Err(p) => Snap {
                ok: false,
                err: crate::panic_text(&p),
                ..Default::default()
            },
        }
    }
}

/// Class of one physical slot, relative to a snapshot (DESIGN §2).
#[derive(Clone, Copy, PartialEq, Eq, Hash, Debug)]
pub enum Class {
    Live(u8),
    Dup(u8),
    Dead,
    Held,
    Pat(u8),
    Raw(u32),
}

pub fn classify(snap: &Snap) -> Vec<Class> {
    let occ = snap.occ();
    (0..snap.raw.len())
        .map(|p| {
            if let Some(r) = occ.iter().position(|q| *q == p) {
                return Class::Live(r as u8);
            }
            let x = snap.raw[p];
            match x {
                0 => Class::Pat(0x00),
                0xFFFF_FFFF => Class::Pat(0xFF),
                0x5A5A_5A5A => Class::Pat(0x5A),
                _ => {
                    if !ledger::is_valid(x) {
                        Class::Raw(x)
                    } else if let Some(r) = snap.iter.iter().position(|id| *id == x) {
                        Class::Dup(r as u8)
                    } else if ledger::is_live(x) {
                        Class::Held
                    } else {
                        Class::Dead
                    }
                }
            }
        })
        .collect()
}

/// Fine key: header bytes verbatim + class of every slot.
pub fn key_fine(snap: &Snap) -> Vec<u8> {
    let mut k = snap.header.clone();
    k.push(0xFE);
    for c in classify(snap) {
        match c {
            Class::Live(r) => k.extend([1, r]),
            Class::Dup(r) => k.extend([2, r]),
            Class::Dead => k.extend([3, 0]),
            Class::Held => k.extend([4, 0]),
            Class::Pat(b) => k.extend([5, b]),
            Class::Raw(x) => {
                k.push(6);
                k.extend(x.to_le_bytes())
            }
        }
    }
    k
}

/// Layout key: header bytes verbatim + which slots are occupied by which rank (garbage ignored;
/// justified by C04, see DESIGN §2).
pub fn key_layout(snap: &Snap) -> Vec<u8> {
    let mut k = snap.header.clone();
    k.push(0xFD);
    for c in classify(snap) {
        match c {
            Class::Live(r) => k.extend([1, r]),
            _ => k.extend([0, 0]),
        }
    }
    k
}

pub fn show_classes(snap: &Snap) -> String {
    classify(snap)
        .iter()
        .map(|c| match c {
            Class::Live(r) => format!("R{}", r),
            Class::Dup(r) => format!("dup(R{})", r),
            Class::Dead => "dead".into(),
            Class::Held => "held".into(),
            Class::Pat(b) => format!("{:02x}", b),
            Class::Raw(x) => format!("raw:{:x}", x),
        })
        .collect::<Vec<_>>()
        .join(" ")
}
