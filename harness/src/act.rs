//! The action alphabet (DESIGN §4) with a textual encoding used by replay files.

use std::fmt;
use std::ops::Bound;

pub const MAXI: usize = usize::MAX;

/// Range in explicit `(start bound, end bound)` form.  kinds: 0 = Included, 1 = Excluded, 2 = Unbounded.
#[derive(Clone, Copy, PartialEq, Eq, Hash, Debug)]
pub struct Rs {
    pub sk: u8,
    pub a: usize,
    pub ek: u8,
    pub b: usize,
}
impl Rs {
    pub fn half_open(a: usize, b: usize) -> Rs {
        Rs { sk: 0, a, ek: 1, b }
    }
    pub fn bounds(&self) -> (Bound<usize>, Bound<usize>) {
        let s = match self.sk {
            0 => Bound::Included(self.a),
            1 => Bound::Excluded(self.a),
            _ => Bound::Unbounded,
        };
        let e = match self.ek {
            0 => Bound::Included(self.b),
            1 => Bound::Excluded(self.b),
            _ => Bound::Unbounded,
        };
        (s, e)
    }
    /// The documented meaning: `Ok((a, b))` half-open, or `Err(())` = must panic
    /// (start exceeds end, or end exceeds the length; a bound that overflows `usize` exceeds everything).
    pub fn resolve(&self, len: usize) -> Result<(usize, usize), ()> {
        let s = match self.sk {
            0 => self.a,
            1 => self.a.checked_add(1).ok_or(())?,
            _ => 0,
        };
        let e = match self.ek {
            0 => self.b.checked_add(1).ok_or(())?,
            1 => self.b,
            _ => len,
        };
        if s > e || e > len {
            Err(())
        } else {
            Ok((s, e))
        }
    }
}

/// A consumption script over {next, next_back}: step `i` is `next_back` iff bit `i` is set.
#[derive(Clone, Copy, PartialEq, Eq, Hash, Debug)]
pub struct Script {
    pub bits: u64,
    pub len: u8,
}
/// script lengths up to which the enumeration is exhaustive (2^len scripts per length)
pub const EXHAUSTIVE_SCRIPT_LEN: usize = 10;
impl Script {
    pub fn empty() -> Script {
        Script { bits: 0, len: 0 }
    }
    pub fn all_front(n: usize) -> Script {
        Script {
            bits: 0,
            len: n.min(64) as u8,
        }
    }
    pub fn all_back(n: usize) -> Script {
        let n = n.min(64);
        Script {
            bits: if n >= 64 { u64::MAX } else { (1u64 << n) - 1 },
            len: n as u8,
        }
    }
    /// alternating, starting with next (first = 0) or next_back (first = 1)
    pub fn alternating(n: usize, first: u64) -> Script {
        let n = n.min(64);
        let pat = if first == 0 { 0xAAAA_AAAA_AAAA_AAAAu64 } else { 0x5555_5555_5555_5555u64 };
        Script {
            bits: if n >= 64 { pat } else { pat & ((1u64 << n) - 1) },
            len: n as u8,
        }
    }
    pub fn back(&self, i: usize) -> bool {
        i < 64 && (self.bits >> i) & 1 == 1
    }
    /// Every script of length exactly `n` — exhaustive up to EXHAUSTIVE_SCRIPT_LEN; beyond that (only
    /// reached at the extension capacities > 8) a fixed family: all-front, all-back, the two
    /// alternations, and every 8-step prefix continued all-front / all-back.
    pub fn all_of_len(n: usize) -> Vec<Script> {
        if n <= EXHAUSTIVE_SCRIPT_LEN {
            return (0..(1u64 << n)).map(|bits| Script { bits, len: n as u8 }).collect();
        }
        let n = n.min(64);
        let mut v = vec![Script::all_front(n), Script::all_back(n), Script::alternating(n, 0), Script::alternating(n, 1)];
        for p in 0..256u64 {
            v.push(Script { bits: p, len: n as u8 });
            v.push(Script { bits: p | (Script::all_back(n).bits & !0xFF), len: n as u8 });
        }
        v
    }
    /// every script of length 0..=n (same exhaustiveness rule)
    pub fn all_up_to(n: usize) -> Vec<Script> {
        let mut v: Vec<Script> = (0..=n.min(EXHAUSTIVE_SCRIPT_LEN)).flat_map(Script::all_of_len).collect();
        for k in EXHAUSTIVE_SCRIPT_LEN + 1..=n {
            v.extend([Script::all_front(k), Script::all_back(k), Script::alternating(k, 0), Script::alternating(k, 1)]);
        }
        v
    }
}

/// A sequence of iterator calls richer than a Script: step i = (code >> 4i) & 15 with
/// 0 next, 1 next_back, 2 nth(1), 3 nth_back(1), 4 nth(2), 5 nth_back(2), 6 nth(usize::MAX), 7 nth_back(usize::MAX),
/// and the short-circuiting consumers (an impl may override them, or `try_fold`/`try_rfold` underneath them), each
/// with a counting predicate: 8 find(2nd), 9 rfind(2nd from the back), 10 position(3rd), 11 rposition(2nd from
/// the back), 12 any(2nd), 13 all(fails at the 1st), 14 try_fold(breaks at the 3rd), 15 try_rfold(breaks at the 2nd).
#[derive(Clone, Copy, PartialEq, Eq, Hash, Debug)]
pub struct Steps {
    pub code: u64,
    pub len: u8,
}
impl Steps {
    pub fn step(&self, i: usize) -> u8 {
        ((self.code >> (4 * i)) & 15) as u8
    }
    fn of(kinds: &[u8]) -> Steps {
        let mut code = 0u64;
        for (i, k) in kinds.iter().enumerate() {
            code |= (*k as u64) << (4 * i);
        }
        Steps { code, len: kinds.len() as u8 }
    }
    /// every sequence of 1..=max_len steps over the 8 positional step kinds, plus every sequence of 1..=2 steps
    /// over all 16 kinds that contains a short-circuiting consumer
    pub fn all_up_to(max_len: usize) -> Vec<Steps> {
        let mut v = vec![];
        for l in 1..=max_len {
            let mut ks = vec![0u8; l];
            loop {
                v.push(Steps::of(&ks));
                let mut i = 0;
                while i < l {
                    ks[i] += 1;
                    if ks[i] < 8 {
                        break;
                    }
                    ks[i] = 0;
                    i += 1;
                }
                if i == l {
                    break;
                }
            }
        }
        for k in 8..16u8 {
            v.push(Steps::of(&[k]));
        }
        if max_len >= 2 {
            for a in 0..16u8 {
                for b in 0..16u8 {
                    if a >= 8 || b >= 8 {
                        v.push(Steps::of(&[a, b]));
                    }
                }
            }
        }
        v
    }
    /// (is_back, skip count or None for usize::MAX) of a positional kind
    pub fn decode(k: u8) -> (bool, Option<usize>) {
        match k {
            0 => (false, Some(0)),
            1 => (true, Some(0)),
            2 => (false, Some(1)),
            3 => (true, Some(1)),
            4 => (false, Some(2)),
            5 => (true, Some(2)),
            6 => (false, None),
            _ => (true, None),
        }
    }
    /// short-circuiting kinds: (from the back, how many elements the call consumes when there are enough)
    pub fn short_circuit(k: u8) -> Option<(bool, usize)> {
        match k {
            8 => Some((false, 2)),
            9 => Some((true, 2)),
            10 => Some((false, 3)),
            11 => Some((true, 2)),
            12 => Some((false, 2)),
            13 => Some((false, 1)),
            14 => Some((false, 3)),
            15 => Some((true, 2)),
            _ => None,
        }
    }
}

#[derive(Clone, Copy, PartialEq, Eq, Hash, Debug)]
pub enum Acc {
    GetMut = 0,
    NthFrontMut,
    NthBackMut,
    IndexMut,
    FrontMut,
    BackMut,
    IterMut,
    IterMutRev,
    RangeMut,
    AsMutSlices,
    MakeContig,
}
pub const ACCS: [Acc; 11] = [
    Acc::GetMut,
    Acc::NthFrontMut,
    Acc::NthBackMut,
    Acc::IndexMut,
    Acc::FrontMut,
    Acc::BackMut,
    Acc::IterMut,
    Acc::IterMutRev,
    Acc::RangeMut,
    Acc::AsMutSlices,
    Acc::MakeContig,
];

#[derive(Clone, Copy, PartialEq, Eq, Hash, Debug)]
pub enum Fin {
    Drop = 0,
    Forget = 1,
}

#[derive(Clone, Copy, PartialEq, Eq, Hash, Debug)]
pub enum Ctor {
    Boxed,
    New,
    Default,
    FromArray(usize),
    FromIter(usize),
    /// from_iter of an iterator yielding m items whose size_hint is shaped by `mode`
    /// (0 exact, 1 unknown (0, None), 2 loose upper bound (0, Some(m + big)), 3 (m, None))
    FromIterHint(usize, usize),
}

#[derive(Clone, Copy, PartialEq, Eq, Hash, Debug)]
pub enum Act {
    // ---- mutators
    PushBack,
    PushFront,
    TryPushBack,
    TryPushFront,
    PopBack,
    PopFront,
    Remove(usize),
    SwapRemoveBack(usize),
    SwapRemoveFront(usize),
    Swap(usize, usize),
    TruncateBack(usize),
    TruncateFront(usize),
    Clear,
    Extend(usize),
    /// extend with an iterator of m items whose size_hint is shaped by mode (see Ctor::FromIterHint)
    ExtendHint(usize, usize),
    ExtendFromSlice(usize),
    Fill,
    FillWith,
    FillSpare,
    FillSpareWith,
    Drain(Rs, Script, Fin),
    MakeContiguous,
    WriteVia(Acc, usize),
    /// `self.clone_from(&src)`, src = buffer of `m` elements whose front sits `rot` pushes in
    CloneFrom(usize, usize),
    /// consumes the buffer (terminal)
    IntoIter(Script),
    /// drops the buffer inside the call window (terminal)
    DropBuf,
    /// into_iter, run the script, clone the owning iterator, drain the clone then the original (terminal)
    IntoIterClone(Script),
    // ---- observers
    Get(usize),
    NthFront(usize),
    NthBack(usize),
    Front,
    Back,
    Index(usize),
    Iter(Script),
    IterMut(Script),
    Range(Rs, Script),
    RangeMut(Rs, Script),
    AsSlices,
    AsMutSlices,
    ToVec,
    CloneBuf,
    DebugFmt(usize),
    HashIt,
    EqSelfClone,
    EqSlice,
    EqOther(usize),
    CmpSelfClone,
    CmpOther(usize),
    /// `format!("{:?}", drain)` after running a script on `drain(range)`, then drop the drain
    DrainDebug(Rs, Script),
    /// `format!("{:?}", it)` after running a script on iter (0) / iter_mut (1) / into_iter (2)
    IterDebug(usize, Script),
    /// next / next_back / nth / nth_back steps on: 0 iter, 1 iter_mut, 2 range(rs), 3 range_mut(rs),
    /// 4 into_iter (terminal), 5 drain(rs) followed by dropping the drain, 6 drain(rs) followed by mem::forget
    StepsOn(usize, Rs, Steps),
    /// `buf.extend(other)` where `other` is a whole buffer of m elements moved in (its owning iterator)
    ExtendFromBuf(usize, usize),
    /// `(buf, other_empty_buf).extend(pairs)`: std's tuple `Extend`, which drives `extend_one`/`extend_reserve`
    ExtendPairs(usize),
    /// into_iter of the buffer advanced by `a` nexts; `clone_from` an owning iterator over m other
    /// elements advanced by `b` nexts; then drain it (terminal)
    IntoIterCloneFrom(usize, usize, usize),
}

fn acc_from(i: usize) -> Option<Acc> {
    ACCS.get(i).copied()
}

impl Act {
    pub fn name(&self) -> &'static str {
        use Act::*;
        match self {
            PushBack => "push_back",
            PushFront => "push_front",
            TryPushBack => "try_push_back",
            TryPushFront => "try_push_front",
            PopBack => "pop_back",
            PopFront => "pop_front",
            Remove(_) => "remove",
            SwapRemoveBack(_) => "swap_remove_back",
            SwapRemoveFront(_) => "swap_remove_front",
            Swap(..) => "swap",
            TruncateBack(_) => "truncate_back",
            TruncateFront(_) => "truncate_front",
            Clear => "clear",
            Extend(_) => "extend",
            ExtendHint(..) => "extend_hint",
            ExtendFromSlice(_) => "extend_from_slice",
            Fill => "fill",
            FillWith => "fill_with",
            FillSpare => "fill_spare",
            FillSpareWith => "fill_spare_with",
            Drain(_, _, Fin::Drop) => "drain",
            Drain(_, _, Fin::Forget) => "drain_forget",
            MakeContiguous => "make_contiguous",
            WriteVia(a, _) => match a {
                Acc::GetMut => "write_get_mut",
                Acc::NthFrontMut => "write_nth_front_mut",
                Acc::NthBackMut => "write_nth_back_mut",
                Acc::IndexMut => "write_index_mut",
                Acc::FrontMut => "write_front_mut",
                Acc::BackMut => "write_back_mut",
                Acc::IterMut => "write_iter_mut",
                Acc::IterMutRev => "write_iter_mut_rev",
                Acc::RangeMut => "write_range_mut",
                Acc::AsMutSlices => "write_as_mut_slices",
                Acc::MakeContig => "write_make_contiguous",
            },
            CloneFrom(..) => "clone_from",
            IntoIter(_) => "into_iter",
            DropBuf => "drop_buffer",
            IntoIterClone(_) => "into_iter_clone",
            Get(_) => "get",
            NthFront(_) => "nth_front",
            NthBack(_) => "nth_back",
            Front => "front",
            Back => "back",
            Index(_) => "index",
            Iter(_) => "iter",
            IterMut(_) => "iter_mut",
            Range(..) => "range",
            RangeMut(..) => "range_mut",
            AsSlices => "as_slices",
            AsMutSlices => "as_mut_slices",
            ToVec => "to_vec",
            CloneBuf => "clone",
            DebugFmt(_) => "debug",
            HashIt => "hash",
            EqSelfClone => "eq_clone",
            EqSlice => "eq_slice",
            EqOther(_) => "eq_other",
            CmpSelfClone => "cmp_clone",
            CmpOther(_) => "cmp_other",
            DrainDebug(..) => "drain_debug",
            IterDebug(..) => "iter_debug",
            StepsOn(..) => "steps",
            ExtendFromBuf(..) => "extend_from_buffer",
            ExtendPairs(_) => "extend_pairs",
            IntoIterCloneFrom(..) => "into_iter_clone_from",
        }
    }
    pub fn args(&self) -> Vec<usize> {
        use Act::*;
        match *self {
            Remove(i) | SwapRemoveBack(i) | SwapRemoveFront(i) | TruncateBack(i)
            | TruncateFront(i) | Extend(i) | ExtendPairs(i) | ExtendFromSlice(i) | Get(i) | NthFront(i)
            | NthBack(i) | Index(i) | DebugFmt(i) | EqOther(i) | CmpOther(i) => vec![i],
            Swap(i, j) | CloneFrom(i, j) | ExtendHint(i, j) => vec![i, j],
            WriteVia(_, i) => vec![i],
            IterDebug(k, s) => vec![k, s.bits as usize, s.len as usize],
            StepsOn(k, r, st) => vec![k, r.sk as usize, r.a, r.ek as usize, r.b, st.code as usize, st.len as usize],
            ExtendFromBuf(m, rot) => vec![m, rot],
            IntoIterCloneFrom(a, m, b) => vec![a, m, b],
            Drain(r, s, _) | Range(r, s) | RangeMut(r, s) | DrainDebug(r, s) => vec![
                r.sk as usize,
                r.a,
                r.ek as usize,
                r.b,
                s.bits as usize,
                s.len as usize,
            ],
            IntoIter(s) | Iter(s) | IterMut(s) | IntoIterClone(s) => vec![s.bits as usize, s.len as usize],
            _ => vec![],
        }
    }
    pub fn parse(s: &str) -> Option<Act> {
        use Act::*;
        let (name, args): (&str, Vec<usize>) = match s.find('(') {
            None => (s, vec![]),
            Some(p) => {
                let inner = s[p + 1..].strip_suffix(')')?;
                let mut v = vec![];
                for t in inner.split(',') {
                    let t = t.trim();
                    if t.is_empty() {
                        continue;
                    }
                    v.push(if t == "M" { MAXI } else { t.parse().ok()? });
                }
                (&s[..p], v)
            }
        };
        let a = |i: usize| args.get(i).copied();
        let rs = || -> Option<(Rs, Script)> {
            Some((
                Rs {
                    sk: a(0)? as u8,
                    a: a(1)?,
                    ek: a(2)? as u8,
                    b: a(3)?,
                },
                Script {
                    bits: a(4)? as u64,
                    len: a(5)? as u8,
                },
            ))
        };
        let sc = || -> Option<Script> {
            Some(Script {
                bits: a(0)? as u64,
                len: a(1)? as u8,
            })
        };
        Some(match name {
            "push_back" => PushBack,
            "push_front" => PushFront,
            "try_push_back" => TryPushBack,
            "try_push_front" => TryPushFront,
            "pop_back" => PopBack,
            "pop_front" => PopFront,
            "remove" => Remove(a(0)?),
            "swap_remove_back" => SwapRemoveBack(a(0)?),
            "swap_remove_front" => SwapRemoveFront(a(0)?),
            "swap" => Swap(a(0)?, a(1)?),
            "truncate_back" => TruncateBack(a(0)?),
            "truncate_front" => TruncateFront(a(0)?),
            "clear" => Clear,
            "extend" => Extend(a(0)?),
            "extend_hint" => ExtendHint(a(0)?, a(1)?),
            "extend_from_slice" => ExtendFromSlice(a(0)?),
            "fill" => Fill,
            "fill_with" => FillWith,
            "fill_spare" => FillSpare,
            "fill_spare_with" => FillSpareWith,
            "drain" => {
                let (r, s) = rs()?;
                Drain(r, s, Fin::Drop)
            }
            "drain_forget" => {
                let (r, s) = rs()?;
                Drain(r, s, Fin::Forget)
            }
            "make_contiguous" => MakeContiguous,
            "clone_from" => CloneFrom(a(0)?, a(1)?),
            "into_iter" => IntoIter(sc()?),
            "drop_buffer" => DropBuf,
            "into_iter_clone" => IntoIterClone(sc()?),
            "get" => Get(a(0)?),
            "nth_front" => NthFront(a(0)?),
            "nth_back" => NthBack(a(0)?),
            "front" => Front,
            "back" => Back,
            "index" => Index(a(0)?),
            "iter" => Iter(sc()?),
            "iter_mut" => IterMut(sc()?),
            "range" => {
                let (r, s) = rs()?;
                Range(r, s)
            }
            "range_mut" => {
                let (r, s) = rs()?;
                RangeMut(r, s)
            }
            "as_slices" => AsSlices,
            "as_mut_slices" => AsMutSlices,
            "to_vec" => ToVec,
            "clone" => CloneBuf,
            "debug" => DebugFmt(a(0)?),
            "hash" => HashIt,
            "eq_clone" => EqSelfClone,
            "eq_slice" => EqSlice,
            "eq_other" => EqOther(a(0)?),
            "cmp_clone" => CmpSelfClone,
            "cmp_other" => CmpOther(a(0)?),
            "drain_debug" => {
                let (r, s) = rs()?;
                DrainDebug(r, s)
            }
            "steps" => StepsOn(
                a(0)?,
                Rs {
                    sk: a(1)? as u8,
                    a: a(2)?,
                    ek: a(3)? as u8,
                    b: a(4)?,
                },
                Steps {
                    code: a(5)? as u64,
                    len: a(6)? as u8,
                },
            ),
            "extend_from_buffer" => ExtendFromBuf(a(0)?, a(1)?),
            "extend_pairs" => ExtendPairs(a(0)?),
            "into_iter_clone_from" => IntoIterCloneFrom(a(0)?, a(1)?, a(2)?),
            "iter_debug" => IterDebug(
                a(0)?,
                Script {
                    bits: a(1)? as u64,
                    len: a(2)? as u8,
                },
            ),
            _ => {
                let rest = name.strip_prefix("write_")?;
                let idx = ACCS
                    .iter()
                    .position(|acc| WriteVia(*acc, 0).name() == format!("write_{}", rest))?;
                WriteVia(acc_from(idx)?, a(0)?)
            }
        })
    }
    /// true iff the action can change the buffer (successor-producing in the BFS)
    pub fn is_mutator(&self) -> bool {
        use Act::*;
        matches!(
            self,
            PushBack
                | PushFront
                | TryPushBack
                | TryPushFront
                | PopBack
                | PopFront
                | Remove(_)
                | SwapRemoveBack(_)
                | SwapRemoveFront(_)
                | Swap(..)
                | TruncateBack(_)
                | TruncateFront(_)
                | Clear
                | Extend(_)
                | ExtendHint(..)
                | ExtendFromBuf(..)
                | ExtendPairs(_)
                | ExtendFromSlice(_)
                | Fill
                | FillWith
                | FillSpare
                | FillSpareWith
                | Drain(..)
                | MakeContiguous
                | WriteVia(..)
                | CloneFrom(..)
                | DrainDebug(..)
        )
    }
}

impl fmt::Display for Act {
    fn fmt(&self, f: &mut fmt::Formatter<'_>) -> fmt::Result {
        let args = self.args();
        if args.is_empty() {
            write!(f, "{}", self.name())
        } else {
            let v: Vec<String> = args
                .iter()
                .map(|x| {
                    if *x == MAXI {
                        "M".to_string()
                    } else {
                        x.to_string()
                    }
                })
                .collect();
            write!(f, "{}({})", self.name(), v.join(","))
        }
    }
}

impl fmt::Display for Ctor {
    fn fmt(&self, f: &mut fmt::Formatter<'_>) -> fmt::Result {
        match self {
            Ctor::Boxed => write!(f, "boxed"),
            Ctor::New => write!(f, "new"),
            Ctor::Default => write!(f, "default"),
            Ctor::FromArray(m) => write!(f, "from_array({})", m),
            Ctor::FromIter(m) => write!(f, "from_iter({})", m),
            Ctor::FromIterHint(m, h) => write!(f, "from_iter_hint({},{})", m, h),
        }
    }
}
impl Ctor {
    pub fn parse(s: &str) -> Option<Ctor> {
        match s {
            "boxed" => Some(Ctor::Boxed),
            "new" => Some(Ctor::New),
            "default" => Some(Ctor::Default),
            _ => {
                if let Some(r) = s.strip_prefix("from_array(") {
                    Some(Ctor::FromArray(r.strip_suffix(')')?.parse().ok()?))
                } else if let Some(r) = s.strip_prefix("from_iter_hint(") {
                    let (a, b) = r.strip_suffix(')')?.split_once(',')?;
                    Some(Ctor::FromIterHint(a.parse().ok()?, b.parse().ok()?))
                } else if let Some(r) = s.strip_prefix("from_iter(") {
                    Some(Ctor::FromIter(r.strip_suffix(')')?.parse().ok()?))
                } else {
                    None
                }
            }
        }
    }
}

/// Index domain Idx(N) = {0, …, N+1, usize::MAX}
pub fn idx_domain(n: usize) -> Vec<usize> {
    let mut v: Vec<usize> = (0..=n + 1).collect();
    v.push(MAXI);
    v
}

/// All range specs: 9 bound shapes × Idx(N)² (unbounded sides carry 0 and are emitted once).
pub fn all_ranges(n: usize) -> Vec<Rs> {
    let d = idx_domain(n);
    let mut v = vec![];
    for sk in 0..3u8 {
        for ek in 0..3u8 {
            let da: Vec<usize> = if sk == 2 { vec![0] } else { d.clone() };
            let db: Vec<usize> = if ek == 2 { vec![0] } else { d.clone() };
            for &a in &da {
                for &b in &db {
                    v.push(Rs { sk, a, ek, b });
                }
            }
        }
    }
    v
}
