//! Zero-sized-element twin of the drop/clone-sensitive checks (C03 C05 C06 C07 C09 C12).
//!
//! The tracked element `E` carries an id and therefore can never be zero-sized, so code specialised on
//! `size_of::<T>() == 0` is invisible to the main spaces.  Here the element is a unit struct whose
//! `Clone`/`Drop` only count (and can be made to panic at the k-th call); judgements are made on counts:
//! how many elements are alive vs. how many the buffer and the caller hold.

use crate::checks::Case;
use crate::exec::fnv_of;
use crate::report::*;
use circular_buffer::CircularBuffer;
use std::cell::Cell;
use std::panic::{catch_unwind, AssertUnwindSafe};

thread_local! {
    static CREATED: Cell<i64> = const { Cell::new(0) };
    static DROPPED: Cell<i64> = const { Cell::new(0) };
    static CLONE_CALLS: Cell<u32> = const { Cell::new(0) };
    static DROP_CALLS: Cell<u32> = const { Cell::new(0) };
    /// (0 = clone, 1 = drop, k): the k-th such call panics once
    static FAULT: Cell<(u8, u32)> = const { Cell::new((9, 0)) };
}
fn live() -> i64 {
    CREATED.with(|c| c.get()) - DROPPED.with(|c| c.get())
}
fn reset() {
    CREATED.with(|c| c.set(0));
    DROPPED.with(|c| c.set(0));
    CLONE_CALLS.with(|c| c.set(0));
    DROP_CALLS.with(|c| c.set(0));
    FAULT.with(|c| c.set((9, 0)));
}
fn arm(kind: u8, k: u32) {
    CLONE_CALLS.with(|c| c.set(0));
    DROP_CALLS.with(|c| c.set(0));
    FAULT.with(|c| c.set((kind, k)));
}

#[derive(Debug)]
pub struct Zt;
impl Zt {
    fn new() -> Zt {
        CREATED.with(|c| c.set(c.get() + 1));
        Zt
    }
}
impl Clone for Zt {
    fn clone(&self) -> Zt {
        let n = CLONE_CALLS.with(|c| {
            c.set(c.get() + 1);
            c.get()
        });
        if FAULT.with(|f| f.get()) == (0, n) {
            FAULT.with(|f| f.set((9, 0)));
            panic!("injected fault: clone of a zero-sized element");
        }
        Zt::new()
    }
}
impl Drop for Zt {
    fn drop(&mut self) {
        DROPPED.with(|c| c.set(c.get() + 1));
        let n = DROP_CALLS.with(|c| {
            c.set(c.get() + 1);
            c.get()
        });
        if FAULT.with(|f| f.get()) == (1, n) {
            FAULT.with(|f| f.set((9, 0)));
            panic!("injected fault: drop of a zero-sized element");
        }
    }
}

#[derive(Clone, Copy, Debug, PartialEq, Eq, Hash)]
pub enum ZOp {
    /// drain(a..b), script bits/len over {next,next_back}, then drop the drain
    Drain(usize, usize, u64, u8),
    /// the same, but the drain is leaked with mem::forget
    DrainForget(usize, usize, u64, u8),
    IntoIter(u64, u8),
    CloneBuf,
    ToVec,
    CloneFrom(usize),
    ExtendFromSlice(usize),
    Fill,
    FillSpare,
    MakeContiguous,
    TruncateBack(usize),
    TruncateFront(usize),
    Clear,
    DropBuf,
}
impl ZOp {
    pub fn show(&self) -> String {
        match *self {
            ZOp::Drain(a, b, bits, len) => format!("drain({},{},{},{})", a, b, bits, len),
            ZOp::DrainForget(a, b, bits, len) => format!("drain_forget({},{},{},{})", a, b, bits, len),
            ZOp::IntoIter(bits, len) => format!("into_iter({},{})", bits, len),
            ZOp::CloneBuf => "clone".into(),
            ZOp::ToVec => "to_vec".into(),
            ZOp::CloneFrom(m) => format!("clone_from({})", m),
            ZOp::ExtendFromSlice(m) => format!("extend_from_slice({})", m),
            ZOp::Fill => "fill".into(),
            ZOp::FillSpare => "fill_spare".into(),
            ZOp::MakeContiguous => "make_contiguous".into(),
            ZOp::TruncateBack(k) => format!("truncate_back({})", k),
            ZOp::TruncateFront(k) => format!("truncate_front({})", k),
            ZOp::Clear => "clear".into(),
            ZOp::DropBuf => "drop_buffer".into(),
        }
    }
    pub fn parse(s: &str) -> Option<ZOp> {
        let (name, args): (&str, Vec<u64>) = match s.find('(') {
            None => (s, vec![]),
            Some(p) => (&s[..p], s[p + 1..].strip_suffix(')')?.split(',').map(|t| t.trim().parse().ok()).collect::<Option<Vec<_>>>()?),
        };
        let a = |i: usize| args.get(i).copied();
        Some(match name {
            "drain" => ZOp::Drain(a(0)? as usize, a(1)? as usize, a(2)?, a(3)? as u8),
            "drain_forget" => ZOp::DrainForget(a(0)? as usize, a(1)? as usize, a(2)?, a(3)? as u8),
            "into_iter" => ZOp::IntoIter(a(0)?, a(1)? as u8),
            "clone" => ZOp::CloneBuf,
            "to_vec" => ZOp::ToVec,
            "clone_from" => ZOp::CloneFrom(a(0)? as usize),
            "extend_from_slice" => ZOp::ExtendFromSlice(a(0)? as usize),
            "fill" => ZOp::Fill,
            "fill_spare" => ZOp::FillSpare,
            "make_contiguous" => ZOp::MakeContiguous,
            "truncate_back" => ZOp::TruncateBack(a(0)? as usize),
            "truncate_front" => ZOp::TruncateFront(a(0)? as usize),
            "clear" => ZOp::Clear,
            "drop_buffer" => ZOp::DropBuf,
            _ => return None,
        })
    }
}

fn build<const N: usize>(rot: usize, len: usize) -> Box<CircularBuffer<N, Zt>> {
    let mut b: Box<CircularBuffer<N, Zt>> = Box::new(CircularBuffer::new());
    if N > 0 {
        for _ in 0..rot % N {
            b.push_back(Zt::new());
            drop(b.pop_front());
        }
    }
    for _ in 0..len.min(N) {
        b.push_back(Zt::new());
    }
    b
}

/// One case: layout (rot, len), operation, optional fault (kind, k).  Returns (problems, clone calls, drop calls).
pub fn zst_case<const N: usize>(rot: usize, len: usize, op: ZOp, fault: Option<(u8, u32)>) -> (Vec<String>, u32, u32) {
    reset();
    let mut probs = vec![];
    let mut b = Some(build::<N>(rot, len));
    let len = len.min(N);
    if live() != len as i64 {
        probs.push(format!("after building: {} alive, buffer holds {}", live(), len));
    }
    let mut held: Vec<Zt> = vec![];
    let mut other: Option<Box<CircularBuffer<N, Zt>>> = None;
    let mut slice: Vec<Zt> = vec![];
    let mut expect_len: Option<usize> = None; // fault-free expectation of the resulting length
    match op {
        ZOp::CloneFrom(m) => other = Some(build::<N>(1, m)),
        ZOp::ExtendFromSlice(m) => slice = (0..m).map(|_| Zt::new()).collect(),
        _ => {}
    }
    let value = if matches!(op, ZOp::Fill | ZOp::FillSpare) { Some(Zt::new()) } else { None };
    if let Some((kind, k)) = fault {
        arm(kind, k);
    } else {
        arm(9, 0);
    }
    let mut extra_clones: Vec<Zt> = vec![]; // clones handed to the caller (clone(), to_vec())
    let mut clone_buf: Option<CircularBuffer<N, Zt>> = None;
    let r = catch_unwind(AssertUnwindSafe(|| {
        let buf = b.as_mut().unwrap();
        match op {
            ZOp::Drain(a, bb, bits, sl) => {
                let mut d = buf.drain(a..bb);
                for i in 0..sl as usize {
                    let y = if (bits >> i) & 1 == 1 { d.next_back() } else { d.next() };
                    if let Some(e) = y {
                        held.push(e);
                    }
                }
                drop(d);
                expect_len = Some(len - (bb - a));
            }
            ZOp::DrainForget(a, bb, bits, sl) => {
                let mut d = buf.drain(a..bb);
                for i in 0..sl as usize {
                    let y = if (bits >> i) & 1 == 1 { d.next_back() } else { d.next() };
                    if let Some(e) = y {
                        held.push(e);
                    }
                }
                std::mem::forget(d);
            }
            ZOp::IntoIter(bits, sl) => {
                let owned = *b.take().unwrap();
                let mut it = owned.into_iter();
                for i in 0..sl as usize {
                    let y = if (bits >> i) & 1 == 1 { it.next_back() } else { it.next() };
                    if let Some(e) = y {
                        held.push(e);
                    }
                }
                drop(it);
            }
            ZOp::CloneBuf => {
                clone_buf = Some(CircularBuffer::clone(buf));
                expect_len = Some(len);
            }
            ZOp::ToVec => {
                #[cfg(feature = "alloc")]
                {
                    extra_clones = buf.to_vec();
                }
                expect_len = Some(len);
            }
            ZOp::CloneFrom(m) => {
                buf.clone_from(other.as_ref().unwrap());
                expect_len = Some(m.min(N));
            }
            ZOp::ExtendFromSlice(m) => {
                buf.extend_from_slice(&slice);
                expect_len = Some((len + m).min(N));
            }
            ZOp::Fill => {
                buf.fill(value.unwrap());
                expect_len = Some(N);
            }
            ZOp::FillSpare => {
                buf.fill_spare(value.unwrap());
                expect_len = Some(N);
            }
            ZOp::MakeContiguous => {
                let n = buf.make_contiguous().len();
                if n != len {
                    panic!("make_contiguous returned {} elements", n);
                }
                expect_len = Some(len);
            }
            ZOp::TruncateBack(k) => {
                buf.truncate_back(k);
                expect_len = Some(len.min(k));
            }
            ZOp::TruncateFront(k) => {
                buf.truncate_front(k);
                expect_len = Some(len.min(k));
            }
            ZOp::Clear => {
                buf.clear();
                expect_len = Some(0);
            }
            ZOp::DropBuf => {
                drop(b.take());
            }
        }
    }));
    let clone_calls = CLONE_CALLS.with(|c| c.get());
    let drop_calls = DROP_CALLS.with(|c| c.get());
    FAULT.with(|f| f.set((9, 0)));
    let panicked = r.is_err();
    if panicked && fault.is_none() {
        probs.push(format!("{} panicked: {}", op.show(), crate::panic_text(r.as_ref().err().unwrap())));
    }
    // what is alive must be exactly what somebody holds
    let buf_len = b.as_ref().map(|x| x.len()).unwrap_or(0);
    let caller = held.len() + slice.len() + extra_clones.len() + other.as_ref().map(|o| o.len()).unwrap_or(0) + clone_buf.as_ref().map(|c| c.len()).unwrap_or(0);
    let alive = live();
    if let ZOp::DrainForget(..) = op {
        // leaked drain: elements may be lost, but what the buffer still holds plus what was handed out
        // can never exceed what there was, and nothing may be destroyed twice later
        if buf_len + held.len() > len {
            probs.push(format!("after leaking the drain the buffer holds {} and {} were handed out, but there were only {} elements", buf_len, held.len(), len));
        }
        let r2 = catch_unwind(AssertUnwindSafe(move || {
            drop(held);
            drop(b);
        }));
        if r2.is_err() {
            probs.push("final drop panicked".into());
        }
        if live() < 0 {
            probs.push(format!("after leaking the drain and dropping everything, {} more destructor runs than elements created", -live()));
        }
        return (probs, clone_calls, drop_calls);
    }
    if !panicked {
        if let Some(w) = expect_len {
            if buf_len != w {
                probs.push(format!("{}: buffer length {} expected {}", op.show(), buf_len, w));
            }
        }
        if let Some(c) = &clone_buf {
            if c.len() != len || clone_calls as usize != len {
                probs.push(format!("clone(): {} clone calls for {} elements, clone has length {}", clone_calls, len, c.len()));
            }
        }
        if matches!(op, ZOp::ToVec) && cfg!(feature = "alloc") && (extra_clones.len() != len || clone_calls as usize != len) {
            probs.push(format!("to_vec(): {} clone calls, {} results for {} elements", clone_calls, extra_clones.len(), len));
        }
        if matches!(op, ZOp::MakeContiguous) && !b.as_ref().unwrap().as_slices().1.is_empty() {
            probs.push("after make_contiguous the second slice is not empty".into());
        }
        if alive != (buf_len + caller) as i64 {
            probs.push(format!("{}: {} elements alive but buffer holds {} and the caller {}", op.show(), alive, buf_len, caller));
        }
    } else {
        match fault {
            // a destructor panicked: leaks are tolerated, destroying something twice is not
            Some((1, _)) => {
                if alive < (buf_len + caller) as i64 {
                    probs.push(format!("{} with a panicking destructor: only {} alive but buffer holds {} and the caller {} (something was destroyed twice)", op.show(), alive, buf_len, caller));
                }
            }
            // clone panicked: nothing may be leaked
            Some((0, _)) => {
                if alive != (buf_len + caller) as i64 {
                    probs.push(format!("{} with a panicking clone: {} alive but buffer holds {} and the caller {}", op.show(), alive, buf_len, caller));
                }
            }
            _ => {}
        }
    }
    // final drop of everything
    let r2 = catch_unwind(AssertUnwindSafe(move || {
        drop(held);
        drop(slice);
        drop(extra_clones);
        drop(other);
        drop(clone_buf);
        drop(b);
    }));
    if r2.is_err() {
        probs.push("final drop panicked".into());
    }
    let end = live();
    let leak_ok = matches!(fault, Some((1, _))) && panicked;
    if end < 0 || (end != 0 && !leak_ok) {
        probs.push(format!("{}: after everything was dropped the live count is {}", op.show(), end));
    }
    (probs, clone_calls, drop_calls)
}

fn ops_for(prop: &str, n: usize, len: usize) -> Vec<(ZOp, bool /*clone faults*/, bool /*drop faults*/)> {
    let mut v = vec![];
    let drains = |v: &mut Vec<(ZOp, bool, bool)>, df: bool| {
        for a in 0..=len {
            for b in a..=len {
                let l = b - a;
                for sl in 0..=(l + 1).min(5) {
                    for bits in 0..(1u64 << sl) {
                        v.push((ZOp::Drain(a, b, bits, sl as u8), false, df && sl <= 2));
                    }
                }
            }
        }
    };
    match prop {
        "C09" => drains(&mut v, false),
        "C10" => {
            for a in 0..=len {
                for b in a..=len {
                    let l = b - a;
                    for sl in 0..=(l + 1).min(4) {
                        for bits in 0..(1u64 << sl) {
                            v.push((ZOp::DrainForget(a, b, bits, sl as u8), false, false));
                        }
                    }
                }
            }
        }
        "C03" => {
            drains(&mut v, false);
            for sl in 0..=(len + 1).min(5) {
                for bits in 0..(1u64 << sl) {
                    v.push((ZOp::IntoIter(bits, sl as u8), false, false));
                }
            }
            for m in 0..=2 * n + 1 {
                v.push((ZOp::ExtendFromSlice(m), false, false));
            }
            for k in 0..=n + 1 {
                v.push((ZOp::TruncateBack(k), false, false));
                v.push((ZOp::TruncateFront(k), false, false));
            }
            v.extend([(ZOp::CloneBuf, false, false), (ZOp::ToVec, false, false), (ZOp::Fill, false, false), (ZOp::FillSpare, false, false), (ZOp::Clear, false, false), (ZOp::DropBuf, false, false), (ZOp::MakeContiguous, false, false)]);
            for m in 0..=n {
                v.push((ZOp::CloneFrom(m), false, false));
            }
        }
        "C12" => {
            v.extend([(ZOp::CloneBuf, false, false), (ZOp::ToVec, false, false)]);
            for m in 0..=n {
                v.push((ZOp::CloneFrom(m), false, false));
            }
            v.push((ZOp::IntoIter(0, (len + 1).min(6) as u8), false, false));
        }
        "C07" => v.push((ZOp::MakeContiguous, false, false)),
        "C06" => {
            for m in 0..=2 * n + 1 {
                v.push((ZOp::ExtendFromSlice(m), true, false));
            }
            v.extend([(ZOp::Fill, true, false), (ZOp::FillSpare, true, false), (ZOp::CloneBuf, true, false), (ZOp::ToVec, true, false)]);
            for m in 0..=n {
                v.push((ZOp::CloneFrom(m), true, false));
            }
        }
        "C05" => {
            for k in 0..=n + 1 {
                v.push((ZOp::TruncateBack(k), false, true));
                v.push((ZOp::TruncateFront(k), false, true));
            }
            v.extend([(ZOp::Clear, false, true), (ZOp::DropBuf, false, true), (ZOp::Fill, false, true)]);
            for m in 0..=2 * n + 1 {
                v.push((ZOp::ExtendFromSlice(m), false, true));
            }
            for m in 0..=n {
                v.push((ZOp::CloneFrom(m), false, true));
            }
            drains(&mut v, true);
            for sl in 0..=len.min(2) {
                v.push((ZOp::IntoIter(0, sl as u8), false, true));
            }
        }
        _ => {}
    }
    v
}

/// C18: the union of the twin's operations over all properties, with the fault kinds each is run under
pub fn all_ops(n: usize, len: usize) -> Vec<(ZOp, bool, bool)> {
    let mut v: Vec<(ZOp, bool, bool)> = vec![];
    let mut at: std::collections::HashMap<ZOp, usize> = std::collections::HashMap::new();
    for prop in ["C03", "C05", "C06", "C07", "C09", "C10", "C12"] {
        for (op, cf, df) in ops_for(prop, n, len) {
            match at.get(&op) {
                Some(&i) => {
                    v[i].1 |= cf;
                    v[i].2 |= df;
                }
                None => {
                    at.insert(op, v.len());
                    v.push((op, cf, df));
                }
            }
        }
    }
    v
}

/// The zero-sized twin space for one property and one capacity; violations are reported under that property.
pub fn zst_twin<const N: usize>(prop: &str, rep: &mut Report) {
    if N > 6 {
        return; // the twin covers the core capacities; C19 covers the huge ones
    }
    let mut cases = 0u64;
    for rot in 0..N.max(1) {
        for len in 0..=N {
            for (op, cf, df) in ops_for(prop, N, len) {
                crate::set_case(&format!("n={}|ctor=new|recipe=|filling=none|act=zst|fault=none|extra={}|{}|{}|none", N, rot, len, op.show()));
                let (probs, clones, drops) = zst_case::<N>(rot, len, op, None);
                cases += 1;
                let report = |rep: &mut Report, probs: Vec<String>, fault: String| {
                    for p in probs {
                        rep.violation(Violation {
                            sig: format!("N={}:zst-{}:{}", N, op.show().split('(').next().unwrap_or(""), if fault == "none" { "counts".to_string() } else { format!("fault={}", fault.split('#').next().unwrap_or("")) }),
                            detail: format!("N={} zero-sized elements, front rotated by {}, length {}, {} (fault {}): {}", N, rot, len, op.show(), fault, p),
                            replay: ReplayCase { n: N, ctor: "new".into(), recipe: "".into(), filling: "none".into(), act: "zst".into(), fault: "none".into(), extra: format!("{}|{}|{}|{}", rot, len, op.show(), fault) },
                        });
                    }
                };
                report(rep, probs, "none".into());
                if cf {
                    for k in 1..=clones {
                        let (probs, _, _) = zst_case::<N>(rot, len, op, Some((0, k)));
                        cases += 1;
                        report(rep, probs, format!("clone#{}", k));
                    }
                }
                if df {
                    for k in 1..=drops {
                        let (probs, _, _) = zst_case::<N>(rot, len, op, Some((1, k)));
                        cases += 1;
                        report(rep, probs, format!("drop#{}", k));
                    }
                }
            }
        }
    }
    rep.transitions += cases;
    rep.validated += cases;
    rep.evaluations += cases;
    rep.nontrivial += cases / 2;
    rep.count("zero_sized_twin_cases", cases);
    rep.outcomes.insert(fnv_of(&("zst", N, cases)));
    *rep.by_action.entry("zero-sized twin".into()).or_insert(0) += cases;
    if cases > 0 && N >= 2 {
        let s = format!("N={} zero-sized counting element: every layout x the property's operations (x every fault point where applicable), judged on live-element counts: {} cases", N, cases);
        rep.sample("zst-twin", move || s);
    }
}

pub fn replay_zst<const N: usize>(c: &Case) -> Result<i32, String> {
    let parts: Vec<&str> = c.extra.split('|').collect();
    if parts.len() != 4 {
        return Err("bad zst case".into());
    }
    let rot: usize = parts[0].parse().map_err(|_| "bad rot")?;
    let len: usize = parts[1].parse().map_err(|_| "bad len")?;
    let op = ZOp::parse(parts[2]).ok_or("bad op")?;
    let fault = if parts[3] == "none" {
        None
    } else {
        let (k, i) = parts[3].split_once('#').ok_or("bad fault")?;
        Some((if k == "clone" { 0u8 } else { 1u8 }, i.parse::<u32>().map_err(|_| "bad fault")?))
    };
    let (probs, clones, drops) = zst_case::<N>(rot, len, op, fault);
    println!("N={} zero-sized elements, rotation {}, length {}, {} fault {:?}: {} clone calls, {} destructor calls", N, rot, len, op.show(), fault, clones, drops);
    for p in &probs {
        println!("VIOLATION REPRODUCED: {}", p);
    }
    Ok(if probs.is_empty() { 0 } else { 1 })
}
