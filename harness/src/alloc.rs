//! Counting, pattern-filling global allocator (DESIGN §3.7).
//!
//! * counts allocation events per thread, so that the number of heap allocations performed *inside
//!   one call into the crate* can be measured (C17);
//! * fills every fresh block with a per-thread pattern byte, which gives `boxed()` deterministic
//!   "fresh memory" garbage and lets the calibration tell padding from header fields.

use std::alloc::{GlobalAlloc, Layout, System};
use std::cell::Cell;

pub struct CountingAlloc;

thread_local! {
    static ALLOCS: Cell<u64> = const { Cell::new(0) };
    static FILL: Cell<u8> = const { Cell::new(0x5A) };
    /// > 0 while harness code (the ledger) runs inside a crate call: its allocations are not the crate's
    static PAUSED: Cell<u32> = const { Cell::new(0) };
}

/// Run harness-internal bookkeeping whose allocations must not be attributed to the crate.
#[inline]
pub fn paused<R>(f: impl FnOnce() -> R) -> R {
    PAUSED.with(|p| p.set(p.get() + 1));
    let r = f();
    PAUSED.with(|p| p.set(p.get() - 1));
    r
}

#[inline]
fn bump() {
    if PAUSED.try_with(|p| p.get()).unwrap_or(0) == 0 {
        let _ = ALLOCS.try_with(|c| c.set(c.get().wrapping_add(1)));
    }
}

unsafe impl GlobalAlloc for CountingAlloc {
    unsafe fn alloc(&self, l: Layout) -> *mut u8 {
        let p = System.alloc(l);
        if !p.is_null() {
            bump();
            let f = FILL.try_with(|f| f.get()).unwrap_or(0x5A);
            core::ptr::write_bytes(p, f, l.size());
        }
        p
    }
    unsafe fn dealloc(&self, p: *mut u8, l: Layout) {
        System.dealloc(p, l)
    }
    unsafe fn alloc_zeroed(&self, l: Layout) -> *mut u8 {
        bump();
        System.alloc_zeroed(l)
    }
    unsafe fn realloc(&self, p: *mut u8, l: Layout, n: usize) -> *mut u8 {
        bump();
        System.realloc(p, l, n)
    }
}

/// Number of allocation events (alloc / alloc_zeroed / realloc) on this thread so far.
pub fn count() -> u64 {
    ALLOCS.with(|c| c.get())
}

/// Sets the byte with which fresh heap blocks are filled on this thread; returns the old one.
pub fn set_fill(b: u8) -> u8 {
    FILL.with(|f| f.replace(b))
}
