//! Per-worker report, emitted as JSON on stdout and merged by /verif/check.

use std::collections::{BTreeMap, BTreeSet, HashSet};
use std::fmt::Write;

#[derive(Clone, Debug)]
pub struct ReplayCase {
    pub n: usize,
    pub ctor: String,
    pub recipe: String,
    pub filling: String,
    pub act: String,
    pub fault: String,
    pub extra: String,
}

#[derive(Clone, Debug)]
pub struct Violation {
    pub sig: String,
    pub detail: String,
    pub replay: ReplayCase,
}

pub struct Report {
    pub property: String,
    pub space: String,
    pub n: String,
    pub tier: String,
    pub profile: String,
    pub states: u64,
    pub transitions: u64,
    /// executions on the real code compared against the model / an oracle
    pub validated: u64,
    pub evaluations: u64,
    pub nontrivial: u64,
    pub by_action: BTreeMap<String, u64>,
    pub outcomes: HashSet<u64>,
    pub violations: Vec<Violation>,
    pub violation_sigs: BTreeMap<String, u64>,
    pub samples: Vec<String>,
    pub notes: Vec<String>,
    pub counters: BTreeMap<String, u64>,
    pub exhaustive: bool,
    pub fixpoint: bool,
    pub diameter: u64,
    pub layouts: u64,
    pub expected_layouts: u64,
    pub wall_s: f64,
    pub sample_every: u64,
    seen_sample_kinds: BTreeSet<String>,
}

impl Report {
    pub fn new(property: &str, space: &str, n: &str, tier: &str) -> Report {
        Report {
            property: property.into(),
            space: space.into(),
            n: n.into(),
            tier: tier.into(),
            profile: if cfg!(debug_assertions) { "checked".into() } else { "release".into() },
            states: 0,
            transitions: 0,
            validated: 0,
            evaluations: 0,
            nontrivial: 0,
            by_action: BTreeMap::new(),
            outcomes: HashSet::new(),
            violations: vec![],
            violation_sigs: BTreeMap::new(),
            samples: vec![],
            notes: vec![],
            counters: BTreeMap::new(),
            exhaustive: true,
            fixpoint: false,
            diameter: 0,
            layouts: 0,
            expected_layouts: 0,
            wall_s: 0.0,
            sample_every: 0,
            seen_sample_kinds: BTreeSet::new(),
        }
    }
    pub fn count(&mut self, k: &str, d: u64) {
        *self.counters.entry(k.to_string()).or_insert(0) += d;
    }
    pub fn action(&mut self, name: &str) {
        *self.by_action.entry(name.to_string()).or_insert(0) += 1;
    }
    /// keep the first violation of each signature (BFS order ⇒ shortest recipe), count the rest
    pub fn violation(&mut self, v: Violation) {
        let c = self.violation_sigs.entry(v.sig.clone()).or_insert(0);
        *c += 1;
        if *c == 1 && self.violations.len() < 200 {
            self.violations.push(v);
        }
    }
    /// keep one written-out sample per kind (at most 12 kinds)
    pub fn sample(&mut self, kind: &str, text: impl FnOnce() -> String) {
        if self.samples.len() < 12 && !self.seen_sample_kinds.contains(kind) {
            self.seen_sample_kinds.insert(kind.to_string());
            self.samples.push(text());
        }
    }
    pub fn to_json(&self) -> String {
        let mut s = String::new();
        s.push('{');
        kv_str(&mut s, "property", &self.property);
        kv_str(&mut s, "space", &self.space);
        kv_str(&mut s, "n", &self.n);
        kv_str(&mut s, "tier", &self.tier);
        kv_str(&mut s, "profile", &self.profile);
        kv_num(&mut s, "states", self.states);
        kv_num(&mut s, "transitions", self.transitions);
        kv_num(&mut s, "validated", self.validated);
        kv_num(&mut s, "evaluations", self.evaluations);
        kv_num(&mut s, "nontrivial", self.nontrivial);
        kv_num(&mut s, "distinct_outcomes", self.outcomes.len() as u64);
        kv_num(&mut s, "diameter", self.diameter);
        kv_num(&mut s, "layouts", self.layouts);
        kv_num(&mut s, "expected_layouts", self.expected_layouts);
        let _ = write!(s, "\"exhaustive\":{},\"fixpoint\":{},\"wall_s\":{:.3},", self.exhaustive, self.fixpoint, self.wall_s);
        s.push_str("\"by_action\":{");
        for (i, (k, v)) in self.by_action.iter().enumerate() {
            if i > 0 {
                s.push(',');
            }
            let _ = write!(s, "{}:{}", jstr(k), v);
        }
        s.push_str("},\"counters\":{");
        for (i, (k, v)) in self.counters.iter().enumerate() {
            if i > 0 {
                s.push(',');
            }
            let _ = write!(s, "{}:{}", jstr(k), v);
        }
        s.push_str("},\"violation_sigs\":{");
        for (i, (k, v)) in self.violation_sigs.iter().enumerate() {
            if i > 0 {
                s.push(',');
            }
            let _ = write!(s, "{}:{}", jstr(k), v);
        }
        s.push_str("},\"violations\":[");
        for (i, v) in self.violations.iter().enumerate() {
            if i > 0 {
                s.push(',');
            }
            s.push('{');
            kv_str(&mut s, "sig", &v.sig);
            kv_str(&mut s, "detail", &v.detail);
            s.push_str("\"replay\":{");
            kv_num(&mut s, "n", v.replay.n as u64);
            kv_str(&mut s, "ctor", &v.replay.ctor);
            kv_str(&mut s, "recipe", &v.replay.recipe);
            kv_str(&mut s, "filling", &v.replay.filling);
            kv_str(&mut s, "act", &v.replay.act);
            kv_str(&mut s, "fault", &v.replay.fault);
            let _ = write!(s, "\"extra\":{}", jstr(&v.replay.extra));
            s.push_str("}}");
        }
        s.push_str("],\"samples\":[");
        for (i, v) in self.samples.iter().enumerate() {
            if i > 0 {
                s.push(',');
            }
            s.push_str(&jstr(v));
        }
        s.push_str("],\"notes\":[");
        for (i, v) in self.notes.iter().enumerate() {
            if i > 0 {
                s.push(',');
            }
            s.push_str(&jstr(v));
        }
        s.push_str("]}");
        s
    }
}

fn kv_str(s: &mut String, k: &str, v: &str) {
    let _ = write!(s, "{}:{},", jstr(k), jstr(v));
}
fn kv_num(s: &mut String, k: &str, v: u64) {
    let _ = write!(s, "{}:{},", jstr(k), v);
}
pub fn jstr(v: &str) -> String {
    let mut s = String::with_capacity(v.len() + 2);
    s.push('"');
    for c in v.chars() {
        match c {
            '"' => s.push_str("\\\""),
            '\\' => s.push_str("\\\\"),
            '\n' => s.push_str("\\n"),
            '\t' => s.push_str("\\t"),
            '\r' => s.push_str("\\r"),
            c if (c as u32) < 0x20 => {
                let _ = write!(s, "\\u{:04x}", c as u32);
            }
            c => s.push(c),
        }
    }
    s.push('"');
    s
}
