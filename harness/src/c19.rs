//! C19: zero-sized elements and extreme capacities (DESIGN §4 C19).
//!
//! All slots of a ZST buffer share one address, so the front position is not observable and states
//! cannot be merged soundly; instead ALL action sequences up to a depth are enumerated, each appended
//! to positioning prefixes that put the front within 3 of 0 and of N.

use crate::checks::{Case, Opts};
use crate::exec::fnv_of;
use crate::report::*;
use circular_buffer::CircularBuffer;
use std::cell::Cell;
use std::panic::{catch_unwind, AssertUnwindSafe};

thread_local! {
    static CREATED: Cell<u64> = const { Cell::new(0) };
    static DROPPED: Cell<u64> = const { Cell::new(0) };
}
fn live() -> i64 {
    CREATED.with(|c| c.get()) as i64 - DROPPED.with(|c| c.get()) as i64
}
fn reset_counters() {
    CREATED.with(|c| c.set(0));
    DROPPED.with(|c| c.set(0));
}

#[derive(Debug, PartialEq, Eq, PartialOrd, Ord, Hash)]
pub struct Z;
impl Z {
    fn new() -> Z {
        CREATED.with(|c| c.set(c.get() + 1));
        Z
    }
}
impl Clone for Z {
    fn clone(&self) -> Z {
        Z::new()
    }
}
impl Drop for Z {
    fn drop(&mut self) {
        DROPPED.with(|c| c.set(c.get() + 1));
    }
}

const MAXI: usize = usize::MAX;
pub const CAPS: [usize; 12] = [
    usize::MAX,
    usize::MAX - 1,
    (1 << 63) + 1,
    1 << 63,
    (1 << 63) - 1,
    (1 << 32) + 1,
    1 << 32,
    (1 << 32) - 1,
    0,
    1,
    2,
    3,
];

#[derive(Clone, Copy, PartialEq, Eq, Hash, Debug)]
pub enum ZAct {
    PushBack,
    PushFront,
    TryPushBack,
    TryPushFront,
    PopBack,
    PopFront,
    Remove(usize),
    SwapRemoveBack(usize),
    SwapRemoveFront(usize),
    Swap(usize, usize),
    TruncateBack(usize),
    TruncateFront(usize),
    Clear,
    Extend(usize),
    ExtendFromSlice(usize),
    MakeContiguous,
    /// drain(a..b) then: 0 = drop at once, 1 = consume all from the front, 2 = all from the back
    Drain(usize, usize, u8),
}
impl ZAct {
    pub fn show(&self) -> String {
        let n = |x: usize| if x == MAXI { "M".to_string() } else { x.to_string() };
        match *self {
            ZAct::PushBack => "push_back".into(),
            ZAct::PushFront => "push_front".into(),
            ZAct::TryPushBack => "try_push_back".into(),
            ZAct::TryPushFront => "try_push_front".into(),
            ZAct::PopBack => "pop_back".into(),
            ZAct::PopFront => "pop_front".into(),
            ZAct::Remove(i) => format!("remove({})", n(i)),
            ZAct::SwapRemoveBack(i) => format!("swap_remove_back({})", n(i)),
            ZAct::SwapRemoveFront(i) => format!("swap_remove_front({})", n(i)),
            ZAct::Swap(i, j) => format!("swap({},{})", n(i), n(j)),
            ZAct::TruncateBack(i) => format!("truncate_back({})", n(i)),
            ZAct::TruncateFront(i) => format!("truncate_front({})", n(i)),
            ZAct::Clear => "clear".into(),
            ZAct::Extend(i) => format!("extend({})", n(i)),
            ZAct::ExtendFromSlice(i) => format!("extend_from_slice({})", n(i)),
            ZAct::MakeContiguous => "make_contiguous".into(),
            ZAct::Drain(a, b, k) => format!("drain({},{},{})", n(a), n(b), k),
        }
    }
    pub fn parse(s: &str) -> Option<ZAct> {
        let num = |t: &str| -> Option<usize> { if t.trim() == "M" { Some(MAXI) } else { t.trim().parse().ok() } };
        let (name, args): (&str, Vec<usize>) = match s.find('(') {
            None => (s, vec![]),
            Some(p) => (&s[..p], s[p + 1..].strip_suffix(')')?.split(',').map(num).collect::<Option<Vec<_>>>()?),
        };
        let a = |i: usize| args.get(i).copied();
        Some(match name {
            "push_back" => ZAct::PushBack,
            "push_front" => ZAct::PushFront,
            "try_push_back" => ZAct::TryPushBack,
            "try_push_front" => ZAct::TryPushFront,
            "pop_back" => ZAct::PopBack,
            "pop_front" => ZAct::PopFront,
            "remove" => ZAct::Remove(a(0)?),
            "swap_remove_back" => ZAct::SwapRemoveBack(a(0)?),
            "swap_remove_front" => ZAct::SwapRemoveFront(a(0)?),
            "swap" => ZAct::Swap(a(0)?, a(1)?),
            "truncate_back" => ZAct::TruncateBack(a(0)?),
            "truncate_front" => ZAct::TruncateFront(a(0)?),
            "clear" => ZAct::Clear,
            "extend" => ZAct::Extend(a(0)?),
            "extend_from_slice" => ZAct::ExtendFromSlice(a(0)?),
            "make_contiguous" => ZAct::MakeContiguous,
            "drain" => ZAct::Drain(a(0)?, a(1)?, a(2)? as u8),
            _ => return None,
        })
    }
}

pub fn alphabet(reduced: bool) -> Vec<ZAct> {
    use ZAct::*;
    if reduced {
        return vec![PushBack, PushFront, PopBack, PopFront, Remove(0), Remove(1), SwapRemoveBack(0), SwapRemoveFront(1), TruncateFront(1), Extend(2), ExtendFromSlice(2), Drain(0, 1, 1), Drain(1, 2, 0), MakeContiguous];
    }
    vec![
        PushBack, PushFront, TryPushBack, TryPushFront, PopBack, PopFront,
        Remove(0), Remove(1), Remove(MAXI),
        SwapRemoveBack(0), SwapRemoveBack(1), SwapRemoveFront(0), SwapRemoveFront(1), SwapRemoveFront(MAXI),
        Swap(0, 1), Swap(1, 0), Swap(0, MAXI),
        TruncateBack(0), TruncateBack(1), TruncateFront(0), TruncateFront(1), TruncateFront(MAXI),
        Clear, Extend(2), ExtendFromSlice(1), ExtendFromSlice(2), MakeContiguous,
        Drain(0, 1, 1), Drain(1, 2, 0), Drain(0, MAXI, 2), Drain(1, MAXI, 1),
    ]
}

/// positioning prefixes: (kind, k): kind 0 = push_front^k · pop_back^k, kind 1 = (push_back · pop_front)^k
pub fn prefixes() -> Vec<(u8, usize)> {
    let mut v = vec![];
    for k in 0..=3 {
        v.push((0u8, k));
        if k > 0 {
            v.push((1u8, k));
        }
    }
    v
}

fn apply_prefix<const N: usize>(b: &mut CircularBuffer<N, Z>, p: (u8, usize)) {
    for _ in 0..p.1 {
        if p.0 == 0 {
            drop(b.push_front(Z::new()));
        } else {
            drop(b.push_back(Z::new()));
            drop(b.pop_front());
        }
    }
    if p.0 == 0 {
        for _ in 0..p.1 {
            drop(b.pop_back());
        }
    }
}

/// apply one action to buffer and model length; Err(text) = violation
fn step<const N: usize>(b: &mut CircularBuffer<N, Z>, len: &mut usize, act: ZAct) -> Result<(), String> {
    let l = *len;
    let expect_panic = match act {
        ZAct::Swap(i, j) => i >= l || j >= l,
        ZAct::Drain(a, bb, _) => {
            let e = if bb == MAXI { l } else { bb };
            a > e || e > l
        }
        _ => false,
    };
    // model
    let mut new_len = l;
    let mut want_some: Option<bool> = None;
    match act {
        ZAct::PushBack | ZAct::PushFront => {
            want_some = Some(N == 0 || l == N);
            if N != 0 && l < N {
                new_len = l + 1;
            }
        }
        ZAct::TryPushBack | ZAct::TryPushFront => {
            want_some = Some(l == N); // Err
            if l < N {
                new_len = l + 1;
            }
        }
        ZAct::PopBack | ZAct::PopFront => {
            want_some = Some(l > 0);
            new_len = l.saturating_sub(1);
        }
        ZAct::Remove(i) | ZAct::SwapRemoveBack(i) | ZAct::SwapRemoveFront(i) => {
            want_some = Some(i < l);
            if i < l {
                new_len = l - 1;
            }
        }
        ZAct::Swap(..) | ZAct::MakeContiguous => {}
        ZAct::TruncateBack(k) | ZAct::TruncateFront(k) => new_len = l.min(k),
        ZAct::Clear => new_len = 0,
        ZAct::Extend(m) | ZAct::ExtendFromSlice(m) => new_len = (l + m).min(N),
        ZAct::Drain(a, bb, _) => {
            if !expect_panic {
                let e = if bb == MAXI { l } else { bb };
                new_len = l - (e - a);
            }
        }
    }
    let live0 = live();
    let r = catch_unwind(AssertUnwindSafe(|| -> Result<(), String> {
        let got_some: Option<bool> = match act {
            ZAct::PushBack => Some(b.push_back(Z::new()).is_some()),
            ZAct::PushFront => Some(b.push_front(Z::new()).is_some()),
            ZAct::TryPushBack => Some(b.try_push_back(Z::new()).is_err()),
            ZAct::TryPushFront => Some(b.try_push_front(Z::new()).is_err()),
            ZAct::PopBack => Some(b.pop_back().is_some()),
            ZAct::PopFront => Some(b.pop_front().is_some()),
            ZAct::Remove(i) => Some(b.remove(i).is_some()),
            ZAct::SwapRemoveBack(i) => Some(b.swap_remove_back(i).is_some()),
            ZAct::SwapRemoveFront(i) => Some(b.swap_remove_front(i).is_some()),
            ZAct::Swap(i, j) => {
                b.swap(i, j);
                None
            }
            ZAct::TruncateBack(k) => {
                b.truncate_back(k);
                None
            }
            ZAct::TruncateFront(k) => {
                b.truncate_front(k);
                None
            }
            ZAct::Clear => {
                b.clear();
                None
            }
            ZAct::Extend(m) => {
                b.extend((0..m).map(|_| Z::new()));
                None
            }
            ZAct::ExtendFromSlice(m) => {
                let v: Vec<Z> = (0..m).map(|_| Z::new()).collect();
                b.extend_from_slice(&v);
                None
            }
            ZAct::MakeContiguous => {
                let n = b.make_contiguous().len();
                if n != l {
                    return Err(format!("make_contiguous returned {} elements, length is {}", n, l));
                }
                if !b.as_slices().1.is_empty() {
                    return Err("after make_contiguous the second slice is not empty".into());
                }
                None
            }
            ZAct::Drain(a, bb, k) => {
                let e = if bb == MAXI { l } else { bb };
                let want = e.wrapping_sub(a);
                let mut d = if bb == MAXI { b.drain(a..) } else { b.drain(a..bb) };
                if d.len() != want {
                    return Err(format!("drain len() = {}, expected {}", d.len(), want));
                }
                let mut got = 0;
                match k {
                    1 => {
                        while d.next().is_some() {
                            got += 1;
                            if got > want + 1 {
                                break;
                            }
                        }
                    }
                    2 => {
                        while d.next_back().is_some() {
                            got += 1;
                            if got > want + 1 {
                                break;
                            }
                        }
                    }
                    _ => got = want,
                }
                if got != want {
                    return Err(format!("drain yielded {} elements, expected {}", got, want));
                }
                None
            }
        };
        if got_some != want_some {
            return Err(format!("returned {} but the model says {}", shape(got_some), shape(want_some)));
        }
        Ok(())
    }));
    match r {
        Err(p) => {
            if !expect_panic {
                return Err(format!("panicked: {}", crate::panic_text(&p)));
            }
        }
        Ok(Err(e)) => return Err(e),
        Ok(Ok(())) => {
            if expect_panic {
                return Err("returned normally although the documentation promises a panic".into());
            }
        }
    }
    *len = new_len;
    let _ = live0;
    observe(b, *len)
}

fn shape(s: Option<bool>) -> &'static str {
    match s {
        None => "()",
        Some(true) => "Some/Err",
        Some(false) => "None/Ok",
    }
}

/// all cost-independent observers against the model length
fn observe<const N: usize>(b: &CircularBuffer<N, Z>, len: usize) -> Result<(), String> {
    let r = catch_unwind(AssertUnwindSafe(|| -> Result<(), String> {
        if b.len() != len {
            return Err(format!("len() = {}, model says {}", b.len(), len));
        }
        if b.is_empty() != (len == 0) || b.is_full() != (len == N) || b.capacity() != N {
            return Err(format!("is_empty()={} is_full()={} capacity()={} with len {}", b.is_empty(), b.is_full(), b.capacity(), len));
        }
        if live() != len as i64 {
            return Err(format!("{} elements are alive, the buffer should hold {}", live(), len));
        }
        let (x, y) = b.as_slices();
        if x.len().checked_add(y.len()) != Some(len) {
            return Err(format!("as_slices lengths {}+{} != {}", x.len(), y.len(), len));
        }
        if b.iter().len() != len || b.iter().count() != len || b.iter().rev().count() != len {
            return Err("iter() length disagrees".into());
        }
        for i in [0usize, 1, 2, len.wrapping_sub(1), len, len + 1, MAXI] {
            let want = i < len;
            if b.get(i).is_some() != want || b.nth_front(i).is_some() != want || b.nth_back(i).is_some() != want {
                return Err(format!("get/nth_front/nth_back({}) presence is wrong for len {}", i, len));
            }
        }
        if b.front().is_some() != (len > 0) || b.back().is_some() != (len > 0) {
            return Err("front()/back() presence is wrong".into());
        }
        if b.range(..).len() != len || (len > 0 && b.range(1..).len() != len - 1) || b.range(..len).len() != len {
            return Err("range() length is wrong".into());
        }
        if len > 0 {
            let _ = &b[len - 1];
        }
        let dbg = format!("{:?}", b);
        if dbg.matches('Z').count() != len {
            return Err(format!("Debug shows {} elements, expected {}", dbg.matches('Z').count(), len));
        }
        let _ = fnv_of(b);
        // clone: len more elements come alive, and die with the clone
        let c = b.clone();
        if c.len() != len || live() != 2 * len as i64 {
            return Err(format!("clone has len {} and {} elements alive in total, expected {} / {}", c.len(), live(), len, 2 * len));
        }
        if !(c == *b) || c.partial_cmp(b) != Some(std::cmp::Ordering::Equal) || c.cmp(b) != std::cmp::Ordering::Equal {
            return Err("a clone does not compare equal".into());
        }
        drop(c);
        if live() != len as i64 {
            return Err("dropping a clone changed the number of live elements of the original".into());
        }
        #[cfg(feature = "alloc")]
        {
            let v = b.to_vec();
            if v.len() != len {
                return Err(format!("to_vec has {} elements", v.len()));
            }
        }
        Ok(())
    }));
    match r {
        Ok(x) => x,
        Err(p) => Err(format!("an observer panicked: {}", crate::panic_text(&p))),
    }
}

/// run one sequence; returns Err((step index, text))
pub fn run_seq<const N: usize>(prefix: (u8, usize), seq: &[ZAct]) -> Result<(), (usize, String)> {
    reset_counters();
    let mut b = CircularBuffer::<N, Z>::new();
    let mut len = 0usize;
    let r = catch_unwind(AssertUnwindSafe(|| apply_prefix(&mut b, prefix)));
    if let Err(p) = r {
        std::mem::forget(b);
        return Err((0, format!("positioning prefix panicked: {}", crate::panic_text(&p))));
    }
    if let Err(e) = observe(&b, 0) {
        std::mem::forget(b);
        return Err((0, format!("after the positioning prefix: {}", e)));
    }
    for (i, a) in seq.iter().enumerate() {
        if let Err(e) = step(&mut b, &mut len, *a) {
            std::mem::forget(b);
            return Err((i, e));
        }
    }
    let r = catch_unwind(AssertUnwindSafe(move || drop(b)));
    if let Err(p) = r {
        return Err((seq.len(), format!("dropping the buffer panicked: {}", crate::panic_text(&p))));
    }
    if live() != 0 {
        return Err((seq.len(), format!("{} elements still alive after the buffer was dropped", live())));
    }
    Ok(())
}

fn enumerate<const N: usize>(o: &Opts, rep: &mut Report, cap_idx: usize) {
    let (depth, reduced_depth) = if o.thorough() { (4, 5) } else { (3, 0) };
    let mut total = 0u64;
    let mut steps = 0u64;
    for (pi, prefix) in prefixes().into_iter().enumerate() {
        for (alpha, d) in [(alphabet(false), depth), (alphabet(true), reduced_depth)] {
            if d == 0 {
                continue;
            }
            let k = alpha.len();
            let count = (k as u64).pow(d as u32);
            for x in 0..count {
                if (x as usize) % o.shard.1 != o.shard.0 {
                    continue;
                }
                let mut seq = Vec::with_capacity(d);
                let mut y = x;
                for _ in 0..d {
                    seq.push(alpha[(y % k as u64) as usize]);
                    y /= k as u64;
                }
                if x % 4096 == 0 {
                    crate::set_case(&format!("n={}|ctor=new|recipe={},{}|filling=none|act={}|fault=none", cap_idx, prefix.0, prefix.1, seq.iter().map(|a| a.show()).collect::<Vec<_>>().join(";")));
                } else {
                    crate::PROGRESS.fetch_add(1, std::sync::atomic::Ordering::Relaxed);
                }
                total += 1;
                steps += d as u64;
                if let Err((i, e)) = run_seq::<N>(prefix, &seq) {
                    let bad = seq.get(i).map(|a| a.show()).unwrap_or_else(|| "drop".into());
                    rep.violation(Violation {
                        sig: format!("cap={}:{}:{}", cap_name(N), bad.split('(').next().unwrap_or(""), e.split(' ').take(2).collect::<Vec<_>>().join("_")),
                        detail: format!("capacity {} prefix {:?} sequence [{}] step {}: {}", cap_name(N), prefix, seq.iter().map(|a| a.show()).collect::<Vec<_>>().join("; "), i, e),
                        replay: ReplayCase { n: cap_idx, ctor: "new".into(), recipe: format!("{},{}", prefix.0, prefix.1), filling: "none".into(), act: seq.iter().map(|a| a.show()).collect::<Vec<_>>().join(";"), fault: "none".into(), extra: String::new() },
                    });
                }
                if x == (count / 7) * (pi as u64 + 1) + 5 {
                    let s = format!("capacity {} front-positioning prefix {:?} then [{}]: every step's return shape, len, is_full, live-element count and all cost-independent observers match the model", cap_name(N), prefix, seq.iter().map(|a| a.show()).collect::<Vec<_>>().join("; "));
                    rep.sample(&format!("seq-{}-{}", d, pi), move || s);
                }
            }
        }
    }
    rep.transitions += steps;
    rep.validated += steps;
    rep.evaluations += total;
    rep.nontrivial += total;
    rep.states += total; // un-merged: one terminal state per sequence
    rep.outcomes.insert(fnv_of(&(N, total)));
    rep.action("sequence-step");
    rep.count("sequences", total);
    rep.notes.push(format!("capacity {}: all sequences of depth {} over {} actions (+ depth {} over {} actions) x {} positioning prefixes, no state merging", cap_name(N), depth, alphabet(false).len(), reduced_depth, alphabet(true).len(), prefixes().len()));
    rep.fixpoint = false;
}

pub fn cap_name(n: usize) -> String {
    if n == usize::MAX {
        "usize::MAX".into()
    } else if n == usize::MAX - 1 {
        "usize::MAX-1".into()
    } else if n > (1 << 62) {
        format!("2^63{:+}", n as i128 - (1i128 << 63))
    } else if n > (1 << 31) {
        format!("2^32{:+}", n as i128 - (1i128 << 32))
    } else {
        n.to_string()
    }
}

macro_rules! with_cap {
    ($idx:expr, $f:ident, $($a:expr),*) => {
        match $idx {
            0 => $f::<{ usize::MAX }>($($a),*),
            1 => $f::<{ usize::MAX - 1 }>($($a),*),
            2 => $f::<{ (1 << 63) + 1 }>($($a),*),
            3 => $f::<{ 1 << 63 }>($($a),*),
            4 => $f::<{ (1 << 63) - 1 }>($($a),*),
            5 => $f::<{ (1 << 32) + 1 }>($($a),*),
            6 => $f::<{ 1 << 32 }>($($a),*),
            7 => $f::<{ (1 << 32) - 1 }>($($a),*),
            8 => $f::<0>($($a),*),
            9 => $f::<1>($($a),*),
            10 => $f::<2>($($a),*),
            11 => $f::<3>($($a),*),
            _ => panic!("unsupported capacity index"),
        }
    };
}

pub fn c19_check(cap_idx: usize, o: &Opts, rep: &mut Report) {
    with_cap!(cap_idx, enumerate, o, rep, cap_idx)
}

fn replay_one<const N: usize>(prefix: (u8, usize), seq: &[ZAct]) -> Result<(), (usize, String)> {
    run_seq::<N>(prefix, seq)
}

pub fn replay_c19(c: &Case) -> Result<i32, String> {
    let (a, b) = c.recipe.split_once(',').ok_or("bad prefix")?;
    let prefix = (a.parse::<u8>().map_err(|_| "bad prefix")?, b.parse::<usize>().map_err(|_| "bad prefix")?);
    let seq: Vec<ZAct> = c.act.split(';').filter(|s| !s.trim().is_empty()).map(|s| ZAct::parse(s.trim())).collect::<Option<Vec<_>>>().ok_or("bad sequence")?;
    let r = with_cap!(c.n, replay_one, prefix, &seq);
    println!("capacity {} prefix {:?} sequence [{}]", cap_name(CAPS[c.n]), prefix, c.act);
    match r {
        Ok(()) => {
            println!("all steps match the model");
            Ok(0)
        }
        Err((i, e)) => {
            println!("VIOLATION REPRODUCED: step {}: {}", i, e);
            Ok(1)
        }
    }
}
