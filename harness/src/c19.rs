//! C19: zero-sized elements and extreme capacities (DESIGN §4 C19).
//!
//! All slots of a ZST buffer share one address, so the front position is not observable and states
//! cannot be merged soundly; instead ALL action sequences up to a depth are enumerated, each appended
//! to positioning prefixes that put the front within 3 of 0 and of N.

use crate::checks::{Case, Opts};
use crate::exec::fnv_of;
use crate::report::*;
use circular_buffer::CircularBuffer;
use std::cell::Cell;
use std::panic::{catch_unwind, AssertUnwindSafe};

/// Drop-counting element; `Z` is zero-sized, `S` is an ordinary one-byte element (the reference).
pub trait Elem: Clone + std::fmt::Debug + PartialEq + PartialOrd + Ord + std::hash::Hash + Sized {
    fn new() -> Self;
    fn live() -> i64;
    fn reset_counters();
}

macro_rules! counting_elem {
    ($name:ident, $body:ty, $mk:expr, $created:ident, $dropped:ident) => {
        thread_local! {
            static $created: Cell<u64> = const { Cell::new(0) };
            static $dropped: Cell<u64> = const { Cell::new(0) };
        }
        #[derive(Debug, PartialEq, Eq, PartialOrd, Ord, Hash)]
        pub struct $name($body);
        impl Elem for $name {
            fn new() -> Self {
                $created.with(|c| c.set(c.get() + 1));
                $name($mk)
            }
            fn live() -> i64 {
                $created.with(|c| c.get()) as i64 - $dropped.with(|c| c.get()) as i64
            }
            fn reset_counters() {
                $created.with(|c| c.set(0));
                $dropped.with(|c| c.set(0));
            }
        }
        impl Clone for $name {
            fn clone(&self) -> Self {
                <$name as Elem>::new()
            }
        }
        impl Drop for $name {
            fn drop(&mut self) {
                $dropped.with(|c| c.set(c.get() + 1));
            }
        }
    };
}
counting_elem!(Z, (), (), Z_CREATED, Z_DROPPED);
counting_elem!(S, u8, 7u8, S_CREATED, S_DROPPED);

const MAXI: usize = usize::MAX;
pub const CAPS: [usize; 12] = [
    usize::MAX,
    usize::MAX - 1,
    (1 << 63) + 1,
    1 << 63,
    (1 << 63) - 1,
    (1 << 32) + 1,
    1 << 32,
    (1 << 32) - 1,
    0,
    1,
    2,
    3,
];

#[derive(Clone, Copy, PartialEq, Eq, Hash, Debug)]
pub enum ZAct {
    PushBack,
    PushFront,
    TryPushBack,
    TryPushFront,
    PopBack,
    PopFront,
    Remove(usize),
    SwapRemoveBack(usize),
    SwapRemoveFront(usize),
    Swap(usize, usize),
    TruncateBack(usize),
    TruncateFront(usize),
    Clear,
    Extend(usize),
    ExtendFromSlice(usize),
    MakeContiguous,
    /// drain(a..b) then: 0 = drop at once, 1 = consume all from the front, 2 = all from the back
    Drain(usize, usize, u8),
}
impl ZAct {
    pub fn show(&self) -> String {
        let n = |x: usize| if x == MAXI { "M".to_string() } else { x.to_string() };
        match *self {
            ZAct::PushBack => "push_back".into(),
            ZAct::PushFront => "push_front".into(),
            ZAct::TryPushBack => "try_push_back".into(),
            ZAct::TryPushFront => "try_push_front".into(),
            ZAct::PopBack => "pop_back".into(),
            ZAct::PopFront => "pop_front".into(),
            ZAct::Remove(i) => format!("remove({})", n(i)),
            ZAct::SwapRemoveBack(i) => format!("swap_remove_back({})", n(i)),
            ZAct::SwapRemoveFront(i) => format!("swap_remove_front({})", n(i)),
            ZAct::Swap(i, j) => format!("swap({},{})", n(i), n(j)),
            ZAct::TruncateBack(i) => format!("truncate_back({})", n(i)),
            ZAct::TruncateFront(i) => format!("truncate_front({})", n(i)),
            ZAct::Clear => "clear".into(),
            ZAct::Extend(i) => format!("extend({})", n(i)),
            ZAct::ExtendFromSlice(i) => format!("extend_from_slice({})", n(i)),
            ZAct::MakeContiguous => "make_contiguous".into(),
            ZAct::Drain(a, b, k) => format!("drain({},{},{})", n(a), n(b), k),
        }
    }
    pub fn parse(s: &str) -> Option<ZAct> {
        let num = |t: &str| -> Option<usize> { if t.trim() == "M" { Some(MAXI) } else { t.trim().parse().ok() } };
        let (name, args): (&str, Vec<usize>) = match s.find('(') {
            None => (s, vec![]),
            Some(p) => (&s[..p], s[p + 1..].strip_suffix(')')?.split(',').map(num).collect::<Option<Vec<_>>>()?),
        };
        let a = |i: usize| args.get(i).copied();
        Some(match name {
            "push_back" => ZAct::PushBack,
            "push_front" => ZAct::PushFront,
            "try_push_back" => ZAct::TryPushBack,
            "try_push_front" => ZAct::TryPushFront,
            "pop_back" => ZAct::PopBack,
            "pop_front" => ZAct::PopFront,
            "remove" => ZAct::Remove(a(0)?),
            "swap_remove_back" => ZAct::SwapRemoveBack(a(0)?),
            "swap_remove_front" => ZAct::SwapRemoveFront(a(0)?),
            "swap" => ZAct::Swap(a(0)?, a(1)?),
            "truncate_back" => ZAct::TruncateBack(a(0)?),
            "truncate_front" => ZAct::TruncateFront(a(0)?),
            "clear" => ZAct::Clear,
            "extend" => ZAct::Extend(a(0)?),
            "extend_from_slice" => ZAct::ExtendFromSlice(a(0)?),
            "make_contiguous" => ZAct::MakeContiguous,
            "drain" => ZAct::Drain(a(0)?, a(1)?, a(2)? as u8),
            _ => return None,
        })
    }
}

pub fn alphabet(reduced: bool) -> Vec<ZAct> {
    use ZAct::*;
    if reduced {
        return vec![PushBack, PushFront, PopBack, PopFront, Remove(0), Remove(1), SwapRemoveBack(0), SwapRemoveFront(1), TruncateFront(1), Extend(2), ExtendFromSlice(2), Drain(0, 1, 1), Drain(0, MAXI, 5), MakeContiguous, Clear];
    }
    vec![
        PushBack, PushFront, TryPushBack, TryPushFront, PopBack, PopFront,
        Remove(0), Remove(1), Remove(MAXI),
        SwapRemoveBack(0), SwapRemoveBack(1), SwapRemoveFront(0), SwapRemoveFront(1), SwapRemoveFront(MAXI),
        Swap(0, 1), Swap(1, 0), Swap(0, MAXI),
        TruncateBack(0), TruncateBack(1), TruncateFront(0), TruncateFront(1), TruncateFront(MAXI),
        Clear, Extend(2), ExtendFromSlice(1), ExtendFromSlice(2), MakeContiguous,
        Drain(0, 1, 1), Drain(1, 2, 0), Drain(0, MAXI, 2), Drain(1, MAXI, 1),
        Drain(0, MAXI, 0), Drain(0, MAXI, 5), Drain(1, MAXI, 3), Drain(0, MAXI, 4),
    ]
}

/// positioning prefixes: (kind, k): kind 0 = push_front^k · pop_back^k, kind 1 = (push_back · pop_front)^k
pub fn prefixes() -> Vec<(u8, usize)> {
    let mut v = vec![];
    for k in 0..=3 {
        v.push((0u8, k));
        if k > 0 {
            v.push((1u8, k));
        }
    }
    v
}

fn apply_prefix<const N: usize, T: Elem>(b: &mut CircularBuffer<N, T>, p: (u8, usize)) {
    for _ in 0..p.1 {
        if p.0 == 0 {
            drop(b.push_front(T::new()));
        } else {
            drop(b.push_back(T::new()));
            drop(b.pop_front());
        }
    }
    if p.0 == 0 {
        for _ in 0..p.1 {
            drop(b.pop_back());
        }
    }
}

/// Everything observable about one step (no addresses; capacity-dependent facts kept separate).
#[derive(Clone, PartialEq, Eq, Debug)]
pub struct StepObs {
    pub outcome: String,
    pub len: usize,
    pub is_empty: bool,
    pub live: i64,
    pub views: String,
    pub is_full: bool,
}

fn shape(s: Option<bool>) -> &'static str {
    match s {
        None => "()",
        Some(true) => "Some/Err",
        Some(false) => "None/Ok",
    }
}

/// apply one action on the real buffer; the outcome is a string ("()", "Some/Err", "None/Ok", "panic", or a complaint)
fn do_act<const N: usize, T: Elem>(b: &mut CircularBuffer<N, T>, act: ZAct) -> String {
    let l = b.len();
    let r = catch_unwind(AssertUnwindSafe(|| -> String {
        let got: Option<bool> = match act {
            ZAct::PushBack => Some(b.push_back(T::new()).is_some()),
            ZAct::PushFront => Some(b.push_front(T::new()).is_some()),
            ZAct::TryPushBack => Some(b.try_push_back(T::new()).is_err()),
            ZAct::TryPushFront => Some(b.try_push_front(T::new()).is_err()),
            ZAct::PopBack => Some(b.pop_back().is_some()),
            ZAct::PopFront => Some(b.pop_front().is_some()),
            ZAct::Remove(i) => Some(b.remove(i).is_some()),
            ZAct::SwapRemoveBack(i) => Some(b.swap_remove_back(i).is_some()),
            ZAct::SwapRemoveFront(i) => Some(b.swap_remove_front(i).is_some()),
            ZAct::Swap(i, j) => {
                b.swap(i, j);
                None
            }
            ZAct::TruncateBack(k) => {
                b.truncate_back(k);
                None
            }
            ZAct::TruncateFront(k) => {
                b.truncate_front(k);
                None
            }
            ZAct::Clear => {
                b.clear();
                None
            }
            ZAct::Extend(m) => {
                b.extend((0..m).map(|_| T::new()));
                None
            }
            ZAct::ExtendFromSlice(m) => {
                let v: Vec<T> = (0..m).map(|_| T::new()).collect();
                b.extend_from_slice(&v);
                None
            }
            ZAct::MakeContiguous => {
                let n = b.make_contiguous().len();
                let second_empty = b.as_slices().1.is_empty();
                return format!("contiguous:{}:{}", n, second_empty);
            }
            ZAct::Drain(a, bb, k) => {
                let mut d = if bb == MAXI { b.drain(a..) } else { b.drain(a..bb) };
                let announced = d.len();
                let mut got = 0usize;
                match k {
                    1 => {
                        while d.next().is_some() {
                            got += 1;
                            if got > l + 2 {
                                break;
                            }
                        }
                    }
                    2 => {
                        while d.next_back().is_some() {
                            got += 1;
                            if got > l + 2 {
                                break;
                            }
                        }
                    }
                    // partial consumption: the unyielded remainder is destroyed by the drain's drop
                    3 => got += d.next().is_some() as usize,
                    4 => got += d.next_back().is_some() as usize,
                    5 => {
                        got += d.next().is_some() as usize;
                        got += d.next_back().is_some() as usize;
                    }
                    _ => {}
                }
                let left = d.len();
                let shown = format!("{:?}", d);
                let shown = if shown == "[]" { 0 } else { shown.matches(", ").count() + 1 };
                return format!("drain:{}:{}:{}:{}", announced, got, left, shown);
            }
        };
        shape(got).to_string()
    }));
    match r {
        Ok(s) => s,
        Err(_) => "panic".to_string(),
    }
}

/// all cost-independent observers, as a comparable string
fn views<const N: usize, T: Elem>(b: &CircularBuffer<N, T>) -> String {
    let r = catch_unwind(AssertUnwindSafe(|| -> String {
        let len = b.len();
        let (x, y) = b.as_slices();
        let mut s = format!("slices={:?} iter={}/{}/{}", x.len().checked_add(y.len()), b.iter().len(), b.iter().count(), b.iter().rev().count());
        for i in [0usize, 1, 2, len.wrapping_sub(1), len, len.wrapping_add(1), MAXI] {
            s.push_str(&format!(" g{}{}{}", b.get(i).is_some() as u8, b.nth_front(i).is_some() as u8, b.nth_back(i).is_some() as u8));
        }
        s.push_str(&format!(" fb{}{}", b.front().is_some() as u8, b.back().is_some() as u8));
        s.push_str(&format!(" r{}", b.range(..).len()));
        if len > 0 {
            s.push_str(&format!(",{},{}", b.range(1..).len(), b.range(..len).len()));
            let _ = &b[len - 1];
        }
        let dbg = format!("{:?}", b);
        s.push_str(&format!(" dbg{}", if dbg == "[]" { 0 } else { dbg.matches(", ").count() + 1 }));
        let _ = fnv_of(b);
        let before = T::live();
        let c = b.clone();
        s.push_str(&format!(" clone{}+{}", c.len(), T::live() - before));
        s.push_str(&format!(" eq{}{:?}{:?}", (c == *b) as u8, c.partial_cmp(b), c.cmp(b)));
        drop(c);
        s.push_str(&format!(" after{}", T::live() - before));
        #[cfg(feature = "alloc")]
        {
            s.push_str(&format!(" vec{}", b.to_vec().len()));
        }
        s
    }));
    match r {
        Ok(x) => x,
        Err(_) => "observer-panic".to_string(),
    }
}

fn observe<const N: usize, T: Elem>(b: &CircularBuffer<N, T>, outcome: String) -> StepObs {
    StepObs { outcome, len: b.len(), is_empty: b.is_empty(), live: T::live(), views: views(b), is_full: b.is_full() }
}

/// run prefix + sequence on the real code with element type T; one observation per step (+ prefix, + final drop)
pub fn run_obs<const N: usize, T: Elem>(prefix: (u8, usize), seq: &[ZAct]) -> Vec<StepObs> {
    T::reset_counters();
    let mut out = vec![];
    let mut b = CircularBuffer::<N, T>::new();
    let r = catch_unwind(AssertUnwindSafe(|| apply_prefix(&mut b, prefix)));
    out.push(observe(&b, if r.is_err() { "panic".into() } else { "prefix".into() }));
    if r.is_err() {
        std::mem::forget(b);
        return out;
    }
    for a in seq {
        let o = do_act(&mut b, *a);
        let stop = o == "panic" && !expected_panic(*a, out.last().map(|x| x.len).unwrap_or(0));
        out.push(observe(&b, o));
        if stop {
            std::mem::forget(b);
            return out;
        }
    }
    let r = catch_unwind(AssertUnwindSafe(move || drop(b)));
    out.push(StepObs { outcome: if r.is_err() { "panic".into() } else { "dropped".into() }, len: 0, is_empty: true, live: T::live(), views: String::new(), is_full: false });
    out
}

fn expected_panic(act: ZAct, l: usize) -> bool {
    match act {
        ZAct::Swap(i, j) => i >= l || j >= l,
        ZAct::Drain(a, bb, _) => {
            let e = if bb == MAXI { l } else { bb };
            a > e || e > l
        }
        _ => false,
    }
}

/// what the sequence semantics predict for the outcome and the length (model; used for statistics and as a vacuity guard)
fn model_step(cap: usize, l: usize, act: ZAct) -> (String, usize) {
    if expected_panic(act, l) {
        return ("panic".into(), l);
    }
    let some = |b: bool| shape(Some(b)).to_string();
    match act {
        ZAct::PushBack | ZAct::PushFront => (some(cap == 0 || l == cap), if cap != 0 && l < cap { l + 1 } else { l }),
        ZAct::TryPushBack | ZAct::TryPushFront => (some(l == cap), if l < cap { l + 1 } else { l }),
        ZAct::PopBack | ZAct::PopFront => (some(l > 0), l.saturating_sub(1)),
        ZAct::Remove(i) | ZAct::SwapRemoveBack(i) | ZAct::SwapRemoveFront(i) => (some(i < l), if i < l { l - 1 } else { l }),
        ZAct::Swap(..) => ("()".into(), l),
        ZAct::MakeContiguous => (format!("contiguous:{}:true", l), l),
        ZAct::TruncateBack(k) | ZAct::TruncateFront(k) => ("()".into(), l.min(k)),
        ZAct::Clear => ("()".into(), 0),
        ZAct::Extend(m) | ZAct::ExtendFromSlice(m) => ("()".into(), (l + m).min(cap)),
        ZAct::Drain(a, bb, k) => {
            let e = if bb == MAXI { l } else { bb };
            let n = e - a;
            let got = match k {
                0 => 0,
                1 | 2 => n,
                3 | 4 => n.min(1),
                _ => n.min(2),
            };
            (format!("drain:{}:{}:{}:{}", n, got, n - got, n - got), l - n)
        }
    }
}

/// Compare the ZST run at capacity N with the ordinary-element reference run at capacity R.
/// Returns Err((step, text)) for the first step where the zero-sized / huge-capacity buffer behaves
/// differently from "any other" buffer; `model_ok` reports whether it also matches the model.
pub fn run_seq<const N: usize, const R: usize>(prefix: (u8, usize), seq: &[ZAct]) -> (Result<(), (usize, String)>, bool) {
    let z = run_obs::<N, Z>(prefix, seq);
    let s = run_obs::<R, S>(prefix, seq);
    // model (statistics / vacuity guard only)
    let mut model_ok = true;
    let mut l = 0usize;
    for (i, a) in seq.iter().enumerate() {
        let (o, nl) = model_step(N, l, *a);
        match z.get(i + 1) {
            Some(x) if x.outcome == o && x.len == nl && x.live == nl as i64 => {}
            _ => {
                model_ok = false;
                break;
            }
        }
        l = nl;
    }
    for i in 0..z.len().max(s.len()) {
        let what = if i == 0 { "positioning prefix".to_string() } else if i <= seq.len() { seq[i - 1].show() } else { "final drop".to_string() };
        match (z.get(i), s.get(i)) {
            (Some(a), Some(b)) => {
                let same_cap = N == R;
                let eq = a.outcome == b.outcome && a.len == b.len && a.is_empty == b.is_empty && a.live == b.live && a.views == b.views && (!same_cap || a.is_full == b.is_full);
                // capacity-dependent facts are absolute: a huge buffer with a handful of elements is never full
                let full_ok = same_cap || !a.is_full;
                if !eq || !full_ok {
                    return (Err((i.saturating_sub(1), format!("{}: zero-sized/capacity {} gives {:?} but an ordinary element at capacity {} gives {:?}", what, cap_name(N), a, R, b))), model_ok);
                }
            }
            (a, b) => {
                return (Err((i.saturating_sub(1), format!("{}: runs have different lengths: {:?} vs {:?}", what, a, b))), model_ok);
            }
        }
    }
    (Ok(()), model_ok)
}

fn enumerate<const N: usize, const R: usize>(o: &Opts, rep: &mut Report, cap_idx: usize) {
    let (depth, reduced_depth) = if o.thorough() { (4, 5) } else { (3, 0) };
    let mut total = 0u64;
    let mut steps = 0u64;
    let mut model_mismatch = 0u64;
    for (pi, prefix) in prefixes().into_iter().enumerate() {
        for (alpha, d) in [(alphabet(false), depth), (alphabet(true), reduced_depth)] {
            if d == 0 {
                continue;
            }
            let k = alpha.len();
            let count = (k as u64).pow(d as u32);
            for x in 0..count {
                if (x as usize) % o.shard.1 != o.shard.0 {
                    continue;
                }
                let mut seq = Vec::with_capacity(d);
                let mut y = x;
                for _ in 0..d {
                    seq.push(alpha[(y % k as u64) as usize]);
                    y /= k as u64;
                }
                if x % 4096 == 0 {
                    crate::set_case(&format!("n={}|ctor=new|recipe={},{}|filling=none|act={}|fault=none", cap_idx, prefix.0, prefix.1, seq.iter().map(|a| a.show()).collect::<Vec<_>>().join(";")));
                } else {
                    crate::PROGRESS.fetch_add(1, std::sync::atomic::Ordering::Relaxed);
                }
                total += 1;
                steps += d as u64;
                let (res, model_ok) = run_seq::<N, R>(prefix, &seq);
                if !model_ok {
                    model_mismatch += 1;
                }
                if let Err((i, e)) = res {
                    let bad = seq.get(i).map(|a| a.show()).unwrap_or_else(|| "drop".into());
                    rep.violation(Violation {
                        sig: format!("cap={}:{}:{}", cap_name(N), bad.split('(').next().unwrap_or(""), e.split(' ').take(2).collect::<Vec<_>>().join("_")),
                        detail: format!("capacity {} prefix {:?} sequence [{}] step {}: {}", cap_name(N), prefix, seq.iter().map(|a| a.show()).collect::<Vec<_>>().join("; "), i, e),
                        replay: ReplayCase { n: cap_idx, ctor: "new".into(), recipe: format!("{},{}", prefix.0, prefix.1), filling: "none".into(), act: seq.iter().map(|a| a.show()).collect::<Vec<_>>().join(";"), fault: "none".into(), extra: String::new() },
                    });
                }
                if x == (count / 7) * (pi as u64 + 1) + 5 {
                    let s = format!("capacity {} front-positioning prefix {:?} then [{}]: every step's return shape, len, live-element count and all cost-independent observers equal those of an ordinary-element buffer running the same sequence", cap_name(N), prefix, seq.iter().map(|a| a.show()).collect::<Vec<_>>().join("; "));
                    rep.sample(&format!("seq-{}-{}", d, pi), move || s);
                }
            }
        }
    }
    rep.transitions += steps;
    rep.validated += steps;
    rep.evaluations += total;
    rep.nontrivial += total;
    rep.states += total; // un-merged: one terminal state per sequence
    rep.outcomes.insert(fnv_of(&(N, total)));
    rep.action("sequence-step");
    rep.count("sequences", total);
    rep.count("sequences_where_zst_and_ordinary_agree_but_differ_from_the_model", model_mismatch);
    rep.notes.push(format!("capacity {}: all sequences of depth {} over {} actions (+ depth {} over {} actions) x {} positioning prefixes, no state merging", cap_name(N), depth, alphabet(false).len(), reduced_depth, alphabet(true).len(), prefixes().len()));
    rep.fixpoint = false;
}

pub fn cap_name(n: usize) -> String {
    if n == usize::MAX {
        "usize::MAX".into()
    } else if n == usize::MAX - 1 {
        "usize::MAX-1".into()
    } else if n > (1 << 62) {
        format!("2^63{:+}", n as i128 - (1i128 << 63))
    } else if n > (1 << 31) {
        format!("2^32{:+}", n as i128 - (1i128 << 32))
    } else {
        n.to_string()
    }
}

macro_rules! with_cap {
    ($idx:expr, $f:ident, $($a:expr),*) => {
        match $idx {
            // huge capacities: the reference is an ordinary-element buffer that never fills up either
            0 => $f::<{ usize::MAX }, 16>($($a),*),
            1 => $f::<{ usize::MAX - 1 }, 16>($($a),*),
            2 => $f::<{ (1 << 63) + 1 }, 16>($($a),*),
            3 => $f::<{ 1 << 63 }, 16>($($a),*),
            4 => $f::<{ (1 << 63) - 1 }, 16>($($a),*),
            5 => $f::<{ (1 << 32) + 1 }, 16>($($a),*),
            6 => $f::<{ 1 << 32 }, 16>($($a),*),
            7 => $f::<{ (1 << 32) - 1 }, 16>($($a),*),
            // small capacities: same capacity, ordinary element
            8 => $f::<0, 0>($($a),*),
            9 => $f::<1, 1>($($a),*),
            10 => $f::<2, 2>($($a),*),
            11 => $f::<3, 3>($($a),*),
            _ => panic!("unsupported capacity index"),
        }
    };
}

/// A completely FULL buffer of capacity usize::MAX (unit elements; built in O(1) from an array): the
/// only way to reach `len == usize::MAX`, where `Included(usize::MAX)` / `Excluded(usize::MAX)` bounds
/// and `index + 1` arithmetic sit exactly on the overflow boundary.  Returns textual problems.
pub fn huge_full_probes() -> Vec<String> {
    use std::ops::Bound::*;
    const M: usize = usize::MAX;
    let mut probs = vec![];
    let mut must = |name: &str, want_panic: bool, f: &mut dyn FnMut() -> Result<(), String>| {
        let r = catch_unwind(AssertUnwindSafe(|| f()));
        match (r, want_panic) {
            (Err(_), true) => {}
            (Ok(Ok(())), false) => {}
            (Err(p), false) => probs.push(format!("{}: panicked ({}) but must not", name, crate::panic_text(&p))),
            (Ok(Ok(())), true) => probs.push(format!("{}: returned normally but the documentation promises a panic", name)),
            (Ok(Err(e)), _) => probs.push(format!("{}: {}", name, e)),
        }
    };
    let mut b: Box<CircularBuffer<M, ()>> = Box::new(CircularBuffer::from([(); M]));
    must("from([(); usize::MAX])", false, &mut || if b.len() == M && b.is_full() && !b.is_empty() { Ok(()) } else { Err(format!("len {} is_full {}", b.len(), b.is_full())) });
    must("range(..=usize::MAX)", true, &mut || { let _ = b.range(..=M); Ok(()) });
    must("range((Excluded(usize::MAX), Unbounded))", true, &mut || { let _ = b.range((Excluded(M), Unbounded)); Ok(()) });
    must("range_mut(..=usize::MAX)", true, &mut || { let _ = b.range_mut(..=M); Ok(()) });
    must("range(..usize::MAX)", false, &mut || if b.range(..M).len() == M { Ok(()) } else { Err("wrong len".into()) });
    must("range(..)", false, &mut || if b.range(..).len() == M { Ok(()) } else { Err("wrong len".into()) });
    must("range(usize::MAX..)", false, &mut || if b.range(M..).len() == 0 { Ok(()) } else { Err("wrong len".into()) });
    must("range(..=usize::MAX-1)", false, &mut || if b.range(..=M - 1).len() == M { Ok(()) } else { Err("wrong len".into()) });
    must("range((Excluded(usize::MAX-1), Unbounded))", false, &mut || if b.range((Excluded(M - 1), Unbounded)).len() == 0 { Ok(()) } else { Err("wrong len".into()) });
    must("drain(..=usize::MAX)", true, &mut || { let _ = b.drain(..=M); Ok(()) });
    must("drain((Excluded(usize::MAX), Unbounded))", true, &mut || { let _ = b.drain((Excluded(M), Unbounded)); Ok(()) });
    must("still full after the rejected drains", false, &mut || if b.len() == M { Ok(()) } else { Err(format!("len {}", b.len())) });
    must("get / nth_back at the ends", false, &mut || {
        if b.get(M - 1).is_some() && b.get(M).is_none() && b.nth_back(M - 1).is_some() && b.nth_back(M).is_none() && b.front().is_some() && b.back().is_some() {
            Ok(())
        } else {
            Err("presence wrong".into())
        }
    });
    must("index(usize::MAX)", true, &mut || { let _ = &b[M]; Ok(()) });
    must("swap(0, usize::MAX-1)", false, &mut || { b.swap(0, M - 1); Ok(()) });
    must("swap(0, usize::MAX)", true, &mut || { b.swap(0, M); Ok(()) });
    must("push_back on full", false, &mut || if b.push_back(()).is_some() && b.len() == M { Ok(()) } else { Err("wrong".into()) });
    must("push_front on full", false, &mut || if b.push_front(()).is_some() && b.len() == M { Ok(()) } else { Err("wrong".into()) });
    must("try_push_back on full", false, &mut || if b.try_push_back(()).is_err() && b.len() == M { Ok(()) } else { Err("wrong".into()) });
    must("extend_from_slice(1) on full", false, &mut || { b.extend_from_slice(&[()]); if b.len() == M && b.is_full() { Ok(()) } else { Err(format!("len {}", b.len())) } });
    must("extend(2) on full", false, &mut || { b.extend([(), ()]); if b.len() == M && b.is_full() { Ok(()) } else { Err(format!("len {}", b.len())) } });
    must("try_push_front on full", false, &mut || if b.try_push_front(()).is_err() && b.len() == M { Ok(()) } else { Err("wrong".into()) });
    must("pop_back / push_back", false, &mut || if b.pop_back().is_some() && b.len() == M - 1 && !b.is_full() && b.push_back(()).is_none() && b.is_full() { Ok(()) } else { Err("wrong".into()) });
    must("pop_front / try_push_front", false, &mut || if b.pop_front().is_some() && b.len() == M - 1 && b.try_push_front(()).is_ok() && b.is_full() { Ok(()) } else { Err("wrong".into()) });
    must("remove(usize::MAX-1) / remove(usize::MAX)", false, &mut || if b.remove(M).is_none() && b.remove(M - 1).is_some() && b.len() == M - 1 && b.push_back(()).is_none() { Ok(()) } else { Err("wrong".into()) });
    must("swap_remove_back(0)", false, &mut || if b.swap_remove_back(0).is_some() && b.len() == M - 1 && b.push_front(()).is_none() { Ok(()) } else { Err("wrong".into()) });
    must("drain(usize::MAX-2..) consumed from the back", false, &mut || {
        let mut d = b.drain(M - 2..);
        let ok = d.len() == 2 && d.next_back().is_some() && d.next().is_some() && d.next().is_none();
        drop(d);
        if ok && b.len() == M - 2 { Ok(()) } else { Err(format!("len {}", b.len())) }
    });
    must("extend_from_slice(2) refills", false, &mut || { b.extend_from_slice(&[(), ()]); if b.is_full() { Ok(()) } else { Err(format!("len {}", b.len())) } });
    must("truncate_back(usize::MAX-3) / truncate_front(usize::MAX-5)", false, &mut || { b.truncate_back(M - 3); b.truncate_front(M - 5); if b.len() == M - 5 { Ok(()) } else { Err(format!("len {}", b.len())) } });
    must("as_slices lengths", false, &mut || { let (x, y) = b.as_slices(); if x.len().checked_add(y.len()) == Some(M - 5) { Ok(()) } else { Err("wrong".into()) } });
    must("clear", false, &mut || { b.clear(); if b.is_empty() { Ok(()) } else { Err("not empty".into()) } });
    probs
}

/// C08 at extreme capacities: the double-ended exact-size protocol of every iterator kind over a zero-sized
/// element, with the front within 3 of 0 and of N (position arithmetic beyond the machine word), 0..=4 elements,
/// every sub-range and every script over {next, next_back} one step longer than the range.  Elements carry no
/// identity here, so presence, `len()` and `size_hint()` are what is judged (and that nothing panics).
pub fn huge_iter_probes() -> (Vec<String>, u64) {
    use crate::act::Script;
    fn drive<I: DoubleEndedIterator + ExactSizeIterator>(mut it: I, sc: Script, l: usize) -> Result<(), String> {
        let mut left = l;
        if it.len() != left || it.size_hint() != (left, Some(left)) {
            return Err(format!("fresh iterator: len() {} size_hint {:?}, expected {}", it.len(), it.size_hint(), left));
        }
        for i in 0..sc.len as usize {
            let y = if sc.back(i) { it.next_back().is_some() } else { it.next().is_some() };
            if y != (left > 0) {
                return Err(format!("step {} ({}): yielded {} with {} element(s) left", i, if sc.back(i) { "next_back" } else { "next" }, if y { "Some" } else { "None" }, left));
            }
            left = left.saturating_sub(1);
            if it.len() != left || it.size_hint() != (left, Some(left)) {
                return Err(format!("after step {}: len() {} size_hint {:?}, expected {}", i, it.len(), it.size_hint(), left));
            }
        }
        Ok(())
    }
    fn at<const N: usize>(probs: &mut Vec<String>, cases: &mut u64) {
        for prefix in prefixes() {
            for m in 0..=4usize {
                for src in 0..6u8 {
                    let ranges: Vec<(usize, usize)> = if matches!(src, 2 | 3 | 4) { (0..=m).flat_map(|a| (a..=m).map(move |b| (a, b))).collect() } else { vec![(0, m)] };
                    for (a, b) in ranges {
                        let l = b - a;
                        for sc in Script::all_up_to(l + 1) {
                            *cases += 1;
                            let r = catch_unwind(AssertUnwindSafe(|| -> Result<(), String> {
                                let mut buf = CircularBuffer::<N, Z>::new();
                                apply_prefix(&mut buf, prefix);
                                for _ in 0..m {
                                    buf.push_back(Z::new());
                                }
                                match src {
                                    0 => drive(buf.iter(), sc, l),
                                    1 => drive(buf.iter_mut(), sc, l),
                                    2 => drive(buf.range(a..b), sc, l),
                                    3 => drive(buf.range_mut(a..b), sc, l),
                                    4 => {
                                        drive(buf.drain(a..b), sc, l)?;
                                        if buf.len() != m - l || buf.iter().count() != m - l {
                                            return Err(format!("after the drain len() is {}, expected {}", buf.len(), m - l));
                                        }
                                        Ok(())
                                    }
                                    _ => drive(buf.into_iter(), sc, l),
                                }
                            }));
                            let what = ["iter()", "iter_mut()", "range(a..b)", "range_mut(a..b)", "drain(a..b)", "into_iter()"][src as usize];
                            let ctx = || format!("{}: capacity {}, front prefix {:?}, {} element(s), a..b = {}..{}, script {:?}", what, cap_name(N), prefix, m, a, b, (0..sc.len as usize).map(|i| if sc.back(i) { 'b' } else { 'f' }).collect::<String>());
                            match r {
                                Ok(Ok(())) => {}
                                Ok(Err(e)) => probs.push(format!("{}: {}", ctx(), e)),
                                Err(p) => probs.push(format!("{}: panicked: {}", ctx(), crate::panic_text(&p))),
                            }
                        }
                    }
                }
            }
        }
    }
    let mut probs = vec![];
    let mut cases = 0u64;
    at::<{ usize::MAX }>(&mut probs, &mut cases);
    at::<{ usize::MAX - 1 }>(&mut probs, &mut cases);
    at::<{ (1 << 63) + 1 }>(&mut probs, &mut cases);
    at::<{ 1 << 63 }>(&mut probs, &mut cases);
    at::<{ (1 << 32) + 1 }>(&mut probs, &mut cases);
    (probs, cases)
}

pub fn c19_check(cap_idx: usize, o: &Opts, rep: &mut Report) {
    if cap_idx == 0 && o.shard.0 == 0 {
        let probs = huge_full_probes();
        rep.transitions += 30;
        rep.validated += 30;
        rep.count("full_usize_max_probes", 30);
        for p in probs {
            rep.violation(Violation {
                sig: format!("cap=usize::MAX:full:{}", p.split(':').next().unwrap_or("").replace(' ', "_")),
                detail: format!("completely full CircularBuffer<usize::MAX, ()>: {}", p),
                replay: ReplayCase { n: 0, ctor: "new".into(), recipe: "0,0".into(), filling: "none".into(), act: "huge-full".into(), fault: "none".into(), extra: String::new() },
            });
        }
    }
    with_cap!(cap_idx, enumerate, o, rep, cap_idx)
}

fn c18_cap_lines<const N: usize, const R: usize>(cap_idx: usize, depth: usize, out: &mut dyn std::io::Write) -> u64 {
    let acts = alphabet(false);
    let mut lines = 0u64;
    let mut seqs: Vec<Vec<ZAct>> = vec![vec![]];
    let mut frontier: Vec<Vec<ZAct>> = vec![vec![]];
    for _ in 0..depth {
        let mut next = vec![];
        for s in &frontier {
            for a in &acts {
                let mut t = s.clone();
                t.push(*a);
                next.push(t);
            }
        }
        seqs.extend(next.iter().cloned());
        frontier = next;
    }
    if depth > 2 {
        // beyond depth 2 the reduced alphabet (as in C19 itself), to keep the transcript at a few hundred MB
        seqs.retain(|s| s.len() <= 2);
        let red = alphabet(true);
        let mut frontier: Vec<Vec<ZAct>> = vec![vec![]];
        for d in 1..=depth {
            let mut next = vec![];
            for s in &frontier {
                for a in &red {
                    let mut t = s.clone();
                    t.push(*a);
                    next.push(t);
                }
            }
            if d > 2 {
                seqs.extend(next.iter().cloned());
            }
            frontier = next;
        }
    }
    for prefix in prefixes() {
        for seq in &seqs {
            let shown = seq.iter().map(|a| a.show()).collect::<Vec<_>>().join(";");
            crate::set_case(&format!("n=0|ctor=zst-cap|recipe={},{},{}|filling=none|act={}|fault=none|extra=c18", cap_idx, prefix.0, prefix.1, shown));
            let line = c18_cap_line::<N, R>(prefix, seq);
            let _ = writeln!(out, "zst-cap\t{},{},{}\t{}\tnone\t{}", cap_idx, prefix.0, prefix.1, shown, line);
            lines += 1;
        }
    }
    lines
}
fn c18_cap_line<const N: usize, const R: usize>(prefix: (u8, usize), seq: &[ZAct]) -> String {
    let obs = run_obs::<N, Z>(prefix, seq);
    obs.iter().map(|o| format!("{}/len{}/{}{}/live{}/{}", o.outcome, o.len, if o.is_empty { "E" } else { "e" }, if o.is_full { "F" } else { "f" }, o.live, o.views)).collect::<Vec<_>>().join(" ; ")
}
/// C18: zero-sized elements at the twelve extreme/small capacities — every sequence of `depth` steps after every
/// positioning prefix, as transcript lines (one per sequence) that the builds must agree on
pub fn c18_lines(depth: usize, out: &mut dyn std::io::Write) -> u64 {
    let mut lines = 0;
    for idx in 0..CAPS.len() {
        lines += with_cap!(idx, c18_cap_lines, idx, depth, out);
    }
    lines
}
pub fn c18_one(recipe: &str, act: &str) -> Option<String> {
    let p: Vec<usize> = recipe.split(',').map(|x| x.trim().parse().ok()).collect::<Option<Vec<_>>>()?;
    if p.len() != 3 || p[0] >= CAPS.len() {
        return None;
    }
    let seq: Vec<ZAct> = act.split(';').filter(|s| !s.trim().is_empty()).map(|s| ZAct::parse(s.trim())).collect::<Option<Vec<_>>>()?;
    Some(with_cap!(p[0], c18_cap_line, (p[1] as u8, p[2]), &seq))
}

fn replay_one<const N: usize, const R: usize>(prefix: (u8, usize), seq: &[ZAct]) -> Result<(), (usize, String)> {
    run_seq::<N, R>(prefix, seq).0
}

pub fn replay_c19(c: &Case) -> Result<i32, String> {
    if c.act == "huge-iter" {
        let (probs, _) = huge_iter_probes();
        for p in probs.iter().take(20) {
            println!("VIOLATION REPRODUCED: {}", p);
        }
        return Ok(if probs.is_empty() { 0 } else { 1 });
    }
    if c.act == "huge-full" {
        let probs = huge_full_probes();
        for p in &probs {
            println!("VIOLATION REPRODUCED: {}", p);
        }
        return Ok(if probs.is_empty() { 0 } else { 1 });
    }
    let (a, b) = c.recipe.split_once(',').ok_or("bad prefix")?;
    let prefix = (a.parse::<u8>().map_err(|_| "bad prefix")?, b.parse::<usize>().map_err(|_| "bad prefix")?);
    let seq: Vec<ZAct> = c.act.split(';').filter(|s| !s.trim().is_empty()).map(|s| ZAct::parse(s.trim())).collect::<Option<Vec<_>>>().ok_or("bad sequence")?;
    let r = with_cap!(c.n, replay_one, prefix, &seq);
    println!("capacity {} prefix {:?} sequence [{}]", cap_name(CAPS[c.n]), prefix, c.act);
    match r {
        Ok(()) => {
            println!("the zero-sized run equals the ordinary-element run at every step");
            Ok(0)
        }
        Err((i, e)) => {
            println!("VIOLATION REPRODUCED: step {}: {}", i, e);
            Ok(1)
        }
    }
}
