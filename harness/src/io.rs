//! C14 (byte-stream I/O vs. model, BFS to fixpoint) and C16 (embedded-io(-async) ≡ std::io).
//! DESIGN §4 C14 / C16.

use crate::checks::{Case, Opts};
use crate::exec::{boundary_hash_of, fnv_of};
use crate::report::*;
use circular_buffer::CircularBuffer;
use std::collections::HashMap;
use std::panic::{catch_unwind, AssertUnwindSafe};

type B<const N: usize> = CircularBuffer<N, u8>;
const MAXI: usize = usize::MAX;
const SENTINEL: u8 = 0xEE;

#[derive(Clone, Copy, PartialEq, Eq, Hash, Debug)]
pub enum Via {
    Std,
    Eio,
    EioAsync,
}
impl Via {
    fn name(self) -> &'static str {
        match self {
            Via::Std => "std::io",
            Via::Eio => "embedded_io",
            Via::EioAsync => "embedded_io_async",
        }
    }
}

#[derive(Clone, Copy, PartialEq, Eq, Hash, Debug)]
pub enum IoAct {
    Write(usize),
    Read(usize),
    FillBuf,
    Consume(usize),
    Flush,
    /// provided methods of std::io (an impl may override them): judged for allocations only (C17)
    ReadExact(usize),
    WriteAll(usize),
    /// further provided methods of std::io (judged by their documented contract, C14)
    ReadToEnd,
    ReadVectored(usize, usize),
    WriteVectored(usize, usize),
    /// BufRead::read_until with the byte at position j of the contents as delimiter (j == len: a byte that is absent)
    ReadUntil(usize),
    ExtendRef(usize),
    PushBack,
    PushFront,
    PopBack,
    PopFront,
    TryPushBack,
    TryPushFront,
    /// `Hash` through a hasher that is sensitive to how the input is split into `write` calls
    HashIt,
}
impl IoAct {
    pub fn show(&self) -> String {
        let n = |x: usize| if x == MAXI { "M".to_string() } else { x.to_string() };
        match self {
            IoAct::Write(m) => format!("write({})", n(*m)),
            IoAct::Read(m) => format!("read({})", n(*m)),
            IoAct::FillBuf => "fill_buf".into(),
            IoAct::Consume(m) => format!("consume({})", n(*m)),
            IoAct::Flush => "flush".into(),
            IoAct::ReadExact(m) => format!("read_exact({})", n(*m)),
            IoAct::WriteAll(m) => format!("write_all({})", n(*m)),
            IoAct::ReadToEnd => "read_to_end".into(),
            IoAct::ReadVectored(a, b) => format!("read_vectored({}+{})", a, b),
            IoAct::WriteVectored(a, b) => format!("write_vectored({}+{})", a, b),
            IoAct::ReadUntil(j) => format!("read_until({})", n(*j)),
            IoAct::ExtendRef(m) => format!("extend_ref({})", n(*m)),
            IoAct::PushBack => "push_back".into(),
            IoAct::PushFront => "push_front".into(),
            IoAct::PopBack => "pop_back".into(),
            IoAct::PopFront => "pop_front".into(),
            IoAct::TryPushBack => "try_push_back".into(),
            IoAct::TryPushFront => "try_push_front".into(),
            IoAct::HashIt => "hash".into(),
        }
    }
    pub fn name(&self) -> &'static str {
        match self {
            IoAct::Write(_) => "write",
            IoAct::Read(_) => "read",
            IoAct::FillBuf => "fill_buf",
            IoAct::Consume(_) => "consume",
            IoAct::Flush => "flush",
            IoAct::ReadExact(_) => "read_exact",
            IoAct::WriteAll(_) => "write_all",
            IoAct::ReadToEnd => "read_to_end",
            IoAct::ReadVectored(..) => "read_vectored",
            IoAct::WriteVectored(..) => "write_vectored",
            IoAct::ReadUntil(_) => "read_until",
            IoAct::ExtendRef(_) => "extend_ref",
            IoAct::PushBack => "push_back",
            IoAct::PushFront => "push_front",
            IoAct::PopBack => "pop_back",
            IoAct::PopFront => "pop_front",
            IoAct::TryPushBack => "try_push_back",
            IoAct::TryPushFront => "try_push_front",
            IoAct::HashIt => "hash",
        }
    }
    pub fn parse(s: &str) -> Option<IoAct> {
        let num = |t: &str| -> Option<usize> { if t == "M" { Some(MAXI) } else { t.parse().ok() } };
        let arg = |p: &str| -> Option<usize> { num(s.strip_prefix(p)?.strip_suffix(')')?) };
        Some(match s {
            "fill_buf" => IoAct::FillBuf,
            "flush" => IoAct::Flush,
            "read_to_end" => IoAct::ReadToEnd,
            "push_back" => IoAct::PushBack,
            "push_front" => IoAct::PushFront,
            "pop_back" => IoAct::PopBack,
            "pop_front" => IoAct::PopFront,
            "try_push_back" => IoAct::TryPushBack,
            "try_push_front" => IoAct::TryPushFront,
            "hash" => IoAct::HashIt,
            _ => {
                if s.starts_with("write(") {
                    IoAct::Write(arg("write(")?)
                } else if s.starts_with("read(") {
                    IoAct::Read(arg("read(")?)
                } else if s.starts_with("consume(") {
                    IoAct::Consume(arg("consume(")?)
                } else if s.starts_with("read_exact(") {
                    IoAct::ReadExact(arg("read_exact(")?)
                } else if s.starts_with("write_all(") {
                    IoAct::WriteAll(arg("write_all(")?)
                } else if s.starts_with("read_until(") {
                    IoAct::ReadUntil(arg("read_until(")?)
                } else if s.starts_with("read_vectored(") || s.starts_with("write_vectored(") {
                    let inner = s.split_once('(')?.1.strip_suffix(')')?;
                    let (a, b) = inner.split_once('+')?;
                    let (a, b) = (a.parse().ok()?, b.parse().ok()?);
                    if s.starts_with("read_") {
                        IoAct::ReadVectored(a, b)
                    } else {
                        IoAct::WriteVectored(a, b)
                    }
                } else if s.starts_with("extend_ref(") {
                    IoAct::ExtendRef(arg("extend_ref(")?)
                } else {
                    return None;
                }
            }
        })
    }
    fn is_io(&self) -> bool {
        matches!(self, IoAct::Write(_) | IoAct::Read(_) | IoAct::FillBuf | IoAct::Consume(_) | IoAct::Flush)
    }
}

pub fn io_alphabet(n: usize) -> Vec<IoAct> {
    let mut v = vec![];
    for m in 0..=2 * n + 1 {
        v.push(IoAct::Write(m));
    }
    for d in 0..=n + 2 {
        v.push(IoAct::Read(d));
    }
    v.push(IoAct::FillBuf);
    for k in 0..=n + 2 {
        v.push(IoAct::Consume(k));
    }
    v.push(IoAct::Consume(MAXI));
    v.push(IoAct::Flush);
    for m in 0..=n + 1 {
        v.push(IoAct::ExtendRef(m));
    }
    v.extend([IoAct::PushBack, IoAct::PushFront, IoAct::PopBack, IoAct::PopFront, IoAct::TryPushBack, IoAct::TryPushFront]);
    v
}

/// Provided methods of the I/O traits (an impl may override them with something hand-written).
pub fn provided_alphabet(n: usize, std_only: bool) -> Vec<IoAct> {
    let mut v = vec![];
    for d in 0..=n + 2 {
        v.push(IoAct::ReadExact(d));
    }
    for m in 0..=2 * n + 1 {
        v.push(IoAct::WriteAll(m));
    }
    if std_only {
        v.push(IoAct::ReadToEnd);
        for j in 0..=n {
            v.push(IoAct::ReadUntil(j));
        }
        for x in 0..=n + 1 {
            for y in 0..=n + 1 {
                v.push(IoAct::ReadVectored(x, y));
                v.push(IoAct::WriteVectored(x, y));
            }
        }
    }
    v
}

/// What one I/O call returned, as seen by the caller.
#[derive(Clone, PartialEq, Eq, Hash, Debug)]
pub enum IoObs {
    Count(usize),
    /// read: (count, delivered bytes as ranks-or-values, destination tail untouched)
    Read(usize, Vec<u8>, bool),
    Bytes(Vec<u8>),
    Unit,
    Opt(Option<u8>),
    Err(String),
    Pending,
    Unavailable,
}

fn fresh_bytes(live: &[u8], m: usize) -> Vec<u8> {
    if m > 200 {
        // large inputs (extension capacities): deterministic, not necessarily distinct
        return (0..m).map(|i| ((i * 7 + 3) % 251) as u8 + 1).collect();
    }
    let mut v = vec![];
    let mut x = 1u8;
    while v.len() < m {
        if !live.contains(&x) && x != SENTINEL {
            v.push(x);
        }
        x = x.wrapping_add(1);
        if x == 0 {
            x = 1;
        }
        if v.len() < m && x == 1 && v.len() > 200 {
            break;
        }
    }
    // more than ~250 requested cannot happen (m <= 2N+1 <= 19)
    v
}

thread_local! {
    /// heap allocation events observed strictly inside calls into the crate's I/O trait impls
    pub static IO_ALLOCS: std::cell::Cell<u64> = const { std::cell::Cell::new(0) };
}
/// run one call into the crate and attribute allocations made during it
#[inline(always)]
fn mc<R>(f: impl FnOnce() -> R) -> R {
    let a0 = crate::alloc::count();
    let r = f();
    let d = crate::alloc::count() - a0;
    IO_ALLOCS.with(|c| c.set(c.get() + d));
    r
}

#[cfg(feature = "eio-async")]
fn poll_once<F: core::future::Future>(f: F) -> Option<F::Output> {
    let mut f = core::pin::pin!(f);
    let mut cx = core::task::Context::from_waker(core::task::Waker::noop());
    match f.as_mut().poll(&mut cx) {
        core::task::Poll::Ready(r) => Some(r),
        core::task::Poll::Pending => None,
    }
}

/// Drop a buffer a call into the crate has just worked on; a panic inside `Drop` (e.g. a debug assertion on a
/// header the call left inconsistent) is a finding about that call, not a harness failure.
fn quiet_drop<const N: usize>(b: Box<B<N>>) -> Option<String> {
    catch_unwind(AssertUnwindSafe(move || drop(b))).err().map(|p| crate::panic_text(&p))
}

/// Execute one action on the real buffer through the given trait family.
pub fn io_apply<const N: usize>(b: &mut B<N>, act: &IoAct, via: Via) -> IoObs {
    let live: Vec<u8> = b.iter().copied().collect();
    match *act {
        IoAct::Write(m) => {
            let data = fresh_bytes(&live, m);
            match via {
                #[cfg(feature = "std")]
                Via::Std => match mc(|| std::io::Write::write(b, &data)) {
                    Ok(n) => IoObs::Count(n),
                    Err(e) => IoObs::Err(e.to_string()),
                },
                #[cfg(feature = "eio")]
                Via::Eio => match mc(|| embedded_io::Write::write(b, &data)) {
                    Ok(n) => IoObs::Count(n),
                    Err(e) => IoObs::Err(format!("{:?}", e)),
                },
                #[cfg(feature = "eio-async")]
                Via::EioAsync => match mc(|| poll_once(embedded_io_async::Write::write(b, &data))) {
                    Some(Ok(n)) => IoObs::Count(n),
                    Some(Err(e)) => IoObs::Err(format!("{:?}", e)),
                    None => IoObs::Pending,
                },
                #[allow(unreachable_patterns)]
                _ => IoObs::Unavailable,
            }
        }
        IoAct::Flush => match via {
            #[cfg(feature = "std")]
            Via::Std => match mc(|| std::io::Write::flush(b)) {
                Ok(()) => IoObs::Unit,
                Err(e) => IoObs::Err(e.to_string()),
            },
            #[cfg(feature = "eio")]
            Via::Eio => match mc(|| embedded_io::Write::flush(b)) {
                Ok(()) => IoObs::Unit,
                Err(e) => IoObs::Err(format!("{:?}", e)),
            },
            #[cfg(feature = "eio-async")]
            Via::EioAsync => match mc(|| poll_once(embedded_io_async::Write::flush(b))) {
                Some(Ok(())) => IoObs::Unit,
                Some(Err(e)) => IoObs::Err(format!("{:?}", e)),
                None => IoObs::Pending,
            },
            #[allow(unreachable_patterns)]
            _ => IoObs::Unavailable,
        },
        IoAct::Read(d) => {
            let mut dst = vec![SENTINEL; d];
            let r: Result<usize, String> = match via {
                #[cfg(feature = "std")]
                Via::Std => mc(|| std::io::Read::read(b, &mut dst)).map_err(|e| e.to_string()),
                #[cfg(feature = "eio")]
                Via::Eio => mc(|| embedded_io::Read::read(b, &mut dst)).map_err(|e| format!("{:?}", e)),
                #[cfg(feature = "eio-async")]
                Via::EioAsync => match mc(|| poll_once(embedded_io_async::Read::read(b, &mut dst))) {
                    Some(r) => r.map_err(|e| format!("{:?}", e)),
                    None => return IoObs::Pending,
                },
                #[allow(unreachable_patterns)]
                _ => return IoObs::Unavailable,
            };
            match r {
                Ok(n) => {
                    let n2 = n.min(d);
                    // (what a reader leaves in the unused tail of the destination is not part of the contract)
                    let _ = SENTINEL;
                    IoObs::Read(n, dst[..n2].to_vec(), true)
                }
                Err(e) => IoObs::Err(e),
            }
        }
        IoAct::FillBuf => match via {
            #[cfg(feature = "std")]
            Via::Std => match mc(|| std::io::BufRead::fill_buf(b)) {
                Ok(s) => IoObs::Bytes(s.to_vec()),
                Err(e) => IoObs::Err(e.to_string()),
            },
            #[cfg(feature = "eio")]
            Via::Eio => match mc(|| embedded_io::BufRead::fill_buf(b)) {
                Ok(s) => IoObs::Bytes(s.to_vec()),
                Err(e) => IoObs::Err(format!("{:?}", e)),
            },
            #[cfg(feature = "eio-async")]
            Via::EioAsync => match poll_once(embedded_io_async::BufRead::fill_buf(b)) {
                Some(Ok(s)) => IoObs::Bytes(s.to_vec()),
                Some(Err(e)) => IoObs::Err(format!("{:?}", e)),
                None => IoObs::Pending,
            },
            #[allow(unreachable_patterns)]
            _ => IoObs::Unavailable,
        },
        IoAct::Consume(k) => {
            match via {
                #[cfg(feature = "std")]
                Via::Std => mc(|| std::io::BufRead::consume(b, k)),
                #[cfg(feature = "eio")]
                Via::Eio => mc(|| embedded_io::BufRead::consume(b, k)),
                #[cfg(feature = "eio-async")]
                Via::EioAsync => mc(|| embedded_io_async::BufRead::consume(b, k)),
                #[allow(unreachable_patterns)]
                _ => return IoObs::Unavailable,
            }
            IoObs::Unit
        }
        IoAct::ReadExact(d) => {
            let mut dst = vec![SENTINEL; d];
            let r: Result<(), String> = match via {
                #[cfg(feature = "std")]
                Via::Std => mc(|| std::io::Read::read_exact(b, &mut dst)).map_err(|e| format!("{:?}", e.kind())),
                #[cfg(feature = "eio")]
                Via::Eio => mc(|| embedded_io::Read::read_exact(b, &mut dst)).map_err(|e| format!("{:?}", e)),
                #[cfg(feature = "eio-async")]
                Via::EioAsync => match mc(|| poll_once(embedded_io_async::Read::read_exact(b, &mut dst))) {
                    Some(r) => r.map_err(|e| format!("{:?}", e)),
                    None => return IoObs::Pending,
                },
                #[allow(unreachable_patterns)]
                _ => return IoObs::Unavailable,
            };
            match r {
                Ok(()) => IoObs::Read(d, dst, true),
                Err(e) => IoObs::Err(e),
            }
        }
        IoAct::WriteAll(m) => {
            let data = fresh_bytes(&live, m);
            let r: Result<(), String> = match via {
                #[cfg(feature = "std")]
                Via::Std => mc(|| std::io::Write::write_all(b, &data)).map_err(|e| format!("{:?}", e.kind())),
                #[cfg(feature = "eio")]
                Via::Eio => mc(|| embedded_io::Write::write_all(b, &data)).map_err(|e| format!("{:?}", e)),
                #[cfg(feature = "eio-async")]
                Via::EioAsync => match mc(|| poll_once(embedded_io_async::Write::write_all(b, &data))) {
                    Some(r) => r.map_err(|e| format!("{:?}", e)),
                    None => return IoObs::Pending,
                },
                #[allow(unreachable_patterns)]
                _ => return IoObs::Unavailable,
            };
            match r {
                Ok(()) => IoObs::Unit,
                Err(e) => IoObs::Err(e),
            }
        }
        #[cfg(feature = "std")]
        IoAct::ReadToEnd => {
            // (the destination is pre-sized: allocations inside the call are the implementation's own)
            let mut out: Vec<u8> = Vec::with_capacity(4 * N + 64);
            match mc(|| std::io::Read::read_to_end(b, &mut out)) {
                Ok(n) => IoObs::Read(n, out, true),
                Err(e) => IoObs::Err(format!("{:?}", e.kind())),
            }
        }
        #[cfg(feature = "std")]
        IoAct::ReadVectored(x, y) => {
            let mut d0 = vec![SENTINEL; x];
            let mut d1 = vec![SENTINEL; y];
            let r = {
                let mut bufs = [std::io::IoSliceMut::new(&mut d0), std::io::IoSliceMut::new(&mut d1)];
                mc(|| std::io::Read::read_vectored(b, &mut bufs))
            };
            match r {
                Ok(n) => {
                    d0.extend_from_slice(&d1);
                    d0.truncate(n.min(x + y));
                    IoObs::Read(n, d0, true)
                }
                Err(e) => IoObs::Err(format!("{:?}", e.kind())),
            }
        }
        #[cfg(feature = "std")]
        IoAct::WriteVectored(x, y) => {
            let data = fresh_bytes(&live, x + y);
            let bufs = [std::io::IoSlice::new(&data[..x]), std::io::IoSlice::new(&data[x..])];
            match mc(|| std::io::Write::write_vectored(b, &bufs)) {
                Ok(n) => IoObs::Count(n),
                Err(e) => IoObs::Err(format!("{:?}", e.kind())),
            }
        }
        #[cfg(feature = "std")]
        IoAct::ReadUntil(j) => {
            let delim = if j < live.len() { live[j] } else { fresh_bytes(&live, 1)[0] };
            let mut out: Vec<u8> = Vec::with_capacity(4 * N + 64);
            match mc(|| std::io::BufRead::read_until(b, delim, &mut out)) {
                Ok(n) => IoObs::Read(n, out, true),
                Err(e) => IoObs::Err(format!("{:?}", e.kind())),
            }
        }
        #[cfg(not(feature = "std"))]
        IoAct::ReadToEnd | IoAct::ReadVectored(..) | IoAct::WriteVectored(..) | IoAct::ReadUntil(_) => IoObs::Unavailable,
        IoAct::ExtendRef(m) => {
            let data = fresh_bytes(&live, m);
            b.extend(data.iter());
            IoObs::Unit
        }
        IoAct::PushBack => IoObs::Opt(b.push_back(fresh_bytes(&live, 1)[0])),
        IoAct::PushFront => IoObs::Opt(b.push_front(fresh_bytes(&live, 1)[0])),
        IoAct::PopBack => IoObs::Opt(b.pop_back()),
        IoAct::PopFront => IoObs::Opt(b.pop_front()),
        IoAct::TryPushBack => match b.try_push_back(fresh_bytes(&live, 1)[0]) {
            Ok(()) => IoObs::Unit,
            Err(x) => IoObs::Opt(Some(x)),
        },
        IoAct::TryPushFront => match b.try_push_front(fresh_bytes(&live, 1)[0]) {
            Ok(()) => IoObs::Unit,
            Err(x) => IoObs::Opt(Some(x)),
        },
        IoAct::HashIt => IoObs::Count(boundary_hash_of(&*b) as usize),
    }
}

/// The model: a Vec<u8>; returns the expected observation (None = only constrained by `fill_buf_ok`).
pub fn io_model(cap: usize, v: &mut Vec<u8>, act: &IoAct) -> Option<IoObs> {
    let keep_last = |v: &mut Vec<u8>| {
        if v.len() > cap {
            v.drain(..v.len() - cap);
        }
    };
    match *act {
        IoAct::Write(m) => {
            let data = fresh_bytes(v, m);
            v.extend(data);
            keep_last(v);
            Some(IoObs::Count(m))
        }
        IoAct::Flush => Some(IoObs::Unit),
        IoAct::Read(d) => {
            let n = d.min(v.len());
            let out: Vec<u8> = v.drain(..n).collect();
            Some(IoObs::Read(n, out, true))
        }
        IoAct::FillBuf => None,
        // provided methods, by their documented contract (an impl may override them)
        IoAct::ReadExact(d) => {
            if d <= v.len() {
                let out: Vec<u8> = v.drain(..d).collect();
                Some(IoObs::Read(d, out, true))
            } else {
                // how much was consumed before the failure is unspecified: see `io_case_routed`
                v.clear();
                Some(IoObs::Err("UnexpectedEof".into()))
            }
        }
        IoAct::WriteAll(m) => {
            let data = fresh_bytes(v, m);
            v.extend(data);
            keep_last(v);
            Some(IoObs::Unit)
        }
        IoAct::ReadToEnd => {
            let out: Vec<u8> = std::mem::take(v);
            Some(IoObs::Read(out.len(), out, true))
        }
        IoAct::ReadUntil(j) => {
            let n = if j < v.len() { j + 1 } else { v.len() };
            let out: Vec<u8> = v.drain(..n).collect();
            Some(IoObs::Read(n, out, true))
        }
        // how many bytes a vectored call transfers is the implementation's choice: see `io_case_routed`
        IoAct::ReadVectored(..) | IoAct::WriteVectored(..) => None,
        IoAct::Consume(k) => {
            let n = k.min(v.len());
            v.drain(..n);
            Some(IoObs::Unit)
        }
        IoAct::ExtendRef(m) => {
            let data = fresh_bytes(v, m);
            v.extend(data);
            keep_last(v);
            Some(IoObs::Unit)
        }
        IoAct::PushBack => {
            let x = fresh_bytes(v, 1)[0];
            if cap == 0 {
                return Some(IoObs::Opt(Some(x)));
            }
            let r = if v.len() == cap { Some(v.remove(0)) } else { None };
            v.push(x);
            Some(IoObs::Opt(r))
        }
        IoAct::PushFront => {
            let x = fresh_bytes(v, 1)[0];
            if cap == 0 {
                return Some(IoObs::Opt(Some(x)));
            }
            let r = if v.len() == cap { v.pop() } else { None };
            v.insert(0, x);
            Some(IoObs::Opt(r))
        }
        IoAct::TryPushBack | IoAct::TryPushFront => {
            let x = fresh_bytes(v, 1)[0];
            if v.len() >= cap {
                return Some(IoObs::Opt(Some(x)));
            }
            if matches!(act, IoAct::TryPushBack) {
                v.push(x);
            } else {
                v.insert(0, x);
            }
            Some(IoObs::Unit)
        }
        IoAct::HashIt => None,
        IoAct::PopBack => Some(IoObs::Opt(v.pop())),
        IoAct::PopFront => Some(IoObs::Opt(if v.is_empty() { None } else { Some(v.remove(0)) })),
    }
}

struct Cal {
    items_off: usize,
    size: usize,
}
fn calibrate<const N: usize>() -> Cal {
    let size = std::mem::size_of::<B<N>>();
    if N == 0 {
        return Cal { items_off: size, size };
    }
    let mut b: Box<B<N>> = Box::new(B::<N>::new());
    for i in 0..N {
        b.push_back(i as u8);
    }
    let base = &*b as *const B<N> as usize;
    let off = b.iter().map(|e| e as *const u8 as usize - base).min().unwrap();
    Cal { items_off: off, size }
}

/// canonical key: header bytes + per slot (live rank | stale copy of live rank | other)
fn io_key<const N: usize>(b: &B<N>, cal: &Cal) -> Vec<u8> {
    let base = b as *const B<N> as usize;
    let p = base as *const u8;
    let mut k: Vec<u8> = (0..cal.items_off.min(16)).map(|i| unsafe { std::ptr::read_volatile(p.add(i)) }).collect();
    let (s0, s1) = b.as_slices();
    let mut rank_of_slot: HashMap<usize, usize> = HashMap::new();
    for (r, e) in s0.iter().chain(s1.iter()).enumerate() {
        rank_of_slot.insert(e as *const u8 as usize - base - cal.items_off, r);
    }
    let live: Vec<u8> = b.iter().copied().collect();
    k.push(0xFE);
    for s in 0..N {
        match rank_of_slot.get(&s) {
            Some(r) => k.extend([1, *r as u8]),
            // beyond the core capacities garbage is ignored in the key (justified by C04, as for `layout` keys)
            None if N > 8 => k.extend([0, 0]),
            None => {
                let x = unsafe { std::ptr::read_volatile(p.add(cal.items_off + s)) };
                match live.iter().position(|l| *l == x) {
                    Some(r) => k.extend([2, r as u8]),
                    None => k.extend([3, 0]),
                }
            }
        }
    }
    let _ = cal.size;
    k
}

fn rebuild<const N: usize>(recipe: &[IoAct]) -> (Box<B<N>>, Vec<u8>) {
    rebuild_via::<N>(recipe, default_via())
}

/// replay a history with its I/O steps going through the given trait family
fn rebuild_via<const N: usize>(recipe: &[IoAct], via: Via) -> (Box<B<N>>, Vec<u8>) {
    let mut b: Box<B<N>> = Box::new(B::<N>::new());
    // normalise the unoccupied bytes left behind by the by-value constructor
    {
        let cal = calibrate::<N>();
        let base = &mut *b as *mut B<N> as *mut u8;
        for s in 0..N {
            unsafe { std::ptr::write_volatile(base.add(cal.items_off + s), 0) };
        }
    }
    let mut model = vec![];
    for a in recipe {
        let _ = io_apply(&mut b, a, via);
        let _ = io_model(N, &mut model, a);
    }
    (b, model)
}

fn default_via() -> Via {
    if cfg!(feature = "std") {
        Via::Std
    } else if cfg!(feature = "eio") {
        Via::Eio
    } else {
        Via::EioAsync
    }
}

pub fn show_recipe(r: &[IoAct]) -> String {
    if r.is_empty() {
        "new".into()
    } else {
        format!("new; {}", r.iter().map(|a| a.show()).collect::<Vec<_>>().join("; "))
    }
}
fn recipe_str(r: &[IoAct]) -> String {
    r.iter().map(|a| a.show()).collect::<Vec<_>>().join(";")
}
fn parse_recipe(s: &str) -> Option<Vec<IoAct>> {
    s.split(';').filter(|x| !x.trim().is_empty()).map(|x| IoAct::parse(x.trim())).collect()
}

/// C18: the byte-buffer case space as (history, call) pairs that do not depend on any build's memory image:
/// every (front slot, length) layout reached by `write(s); consume(s); write(l)`, and from each the whole
/// I/O alphabet, the provided methods, the deque calls of the byte twin and the boundary-sensitive hash.
pub fn c18_io_cases(n: usize) -> Vec<(Vec<IoAct>, Vec<IoAct>)> {
    let mut acts = io_alphabet(n);
    acts.extend(provided_alphabet(n, true));
    acts.push(IoAct::HashIt);
    let mut v = vec![];
    for s in 0..n.max(1) {
        for l in 0..=n {
            let recipe = if s == 0 { vec![IoAct::Write(l)] } else { vec![IoAct::Write(s), IoAct::Consume(s), IoAct::Write(l)] };
            v.push((recipe, acts.clone()));
        }
    }
    v
}

/// C18: everything observable about one (history, call) pair of the byte space, as one transcript line
pub fn c18_io_line<const N: usize>(recipe: &[IoAct], act: &IoAct) -> String {
    crate::set_case(&format!("n={}|ctor=io|recipe={}|filling=none|act={}|fault=none|extra=c18", N, recipe_str(recipe), act.show()));
    let ((obs, contents, _key, probs, panicked), follow) = with_followup(|| io_case::<N>(recipe, act, Via::Std));
    format!("{} {:?} contents {:?} follow-up {:?} problems {:?}", if panicked { "panicked" } else { "returned" }, obs, contents, follow, probs)
}
pub fn c18_parse_io(recipe: &str, act: &str) -> Option<(Vec<IoAct>, IoAct)> {
    Some((parse_recipe(recipe)?, IoAct::parse(act)?))
}
pub fn c18_recipe_str(r: &[IoAct]) -> String {
    recipe_str(r)
}

/// One checked I/O step from the state `recipe`: returns (observation, contents after, key after, problems)
pub fn io_case<const N: usize>(recipe: &[IoAct], act: &IoAct, via: Via) -> (IoObs, Vec<u8>, Vec<u8>, Vec<String>, bool) {
    io_case_routed::<N>(recipe, default_via(), act, via)
}

/// like `io_case`, with the history itself replayed through `history_via`
pub fn io_case_routed<const N: usize>(recipe: &[IoAct], history_via: Via, act: &IoAct, via: Via) -> (IoObs, Vec<u8>, Vec<u8>, Vec<String>, bool) {
    let cal = calibrate::<N>();
    let (mut b, mut model) = rebuild_via::<N>(recipe, history_via);
    let pre: Vec<u8> = model.clone();
    let mut probs = vec![];
    let r = catch_unwind(AssertUnwindSafe(|| io_apply(&mut b, act, via)));
    let obs = match r {
        Ok(o) => o,
        Err(p) => {
            probs.push(format!("{} panicked: {}", act.show(), crate::panic_text(&p)));
            std::mem::forget(b); // (whatever state the unwinding left: not touched again)
            return (IoObs::Err("panic".into()), vec![], vec![], probs, true);
        }
    };
    let exp = io_model(N, &mut model, act);
    let contents: Vec<u8> = match catch_unwind(AssertUnwindSafe(|| b.iter().copied().collect::<Vec<u8>>())) {
        Ok(c) => c,
        Err(p) => {
            probs.push(format!("after {} the buffer cannot be read any more: iter() panicked: {}", act.show(), crate::panic_text(&p)));
            std::mem::forget(b);
            return (obs, vec![], vec![], probs, true);
        }
    };
    match (act, &obs) {
        (IoAct::ReadExact(d), _) if *d > pre.len() => {
            // failed read_exact: any amount may have been consumed from the front
            if pre.ends_with(&contents) {
                model = contents.clone();
            }
        }
        (IoAct::ReadVectored(x, y), IoObs::Read(n, bytes, _)) => {
            let most = (x + y).min(pre.len());
            if *n > most || (*n == 0 && most > 0) || bytes[..] != pre[..(*n).min(most)] {
                probs.push(format!("read_vectored returned {} byte(s) {:?}; contents were {:?}, destination sizes {}+{}", n, bytes, pre, x, y));
            }
            model = pre[(*n).min(pre.len())..].to_vec();
        }
        (IoAct::WriteVectored(x, y), IoObs::Count(n)) => {
            if *n > x + y || (*n == 0 && x + y > 0) {
                probs.push(format!("write_vectored returned {} for inputs of {}+{} bytes", n, x, y));
            }
            let data = fresh_bytes(&pre, x + y);
            model = pre.clone();
            model.extend_from_slice(&data[..(*n).min(x + y)]);
            if model.len() > N {
                model.drain(..model.len() - N);
            }
        }
        _ => {}
    }
    match &obs {
        IoObs::Err(_) if exp.as_ref() == Some(&obs) => {} // read_exact beyond the end: the documented error
        IoObs::Err(e) => probs.push(format!("{} returned an error: {}", act.show(), e)),
        IoObs::Pending => probs.push(format!("{} returned Poll::Pending", act.show())),
        _ => {}
    }
    match (&exp, &obs) {
        (_, IoObs::Unavailable) => {}
        (Some(e), o) => {
            if e != o {
                probs.push(format!("{} returned {:?}, expected {:?} (contents before: {:?})", act.show(), o, e, pre));
            }
        }
        (None, IoObs::Bytes(s)) => {
            // fill_buf: a prefix of the contents, non-empty iff the buffer is non-empty
            if !pre.starts_with(s) || (s.is_empty() != pre.is_empty()) {
                probs.push(format!("fill_buf returned {:?}, contents are {:?}", s, pre));
            }
        }
        (None, _) => {}
    }
    if !matches!(obs, IoObs::Unavailable) && contents != model {
        probs.push(format!("after {} the contents are {:?}, expected {:?} (before: {:?})", act.show(), contents, model, pre));
    }
    if b.len() != contents.len() {
        probs.push(format!("len() = {} but iter yields {}", b.len(), contents.len()));
    }
    let key = io_key(&b, &cal);
    // what the call left behind, as far as later calls through the same trait family can see it
    // (fill_buf is the one layout-dependent observer of the I/O traits)
    FOLLOWUP.with(|f| {
        let mut v = vec![];
        if FOLLOWUP_ON.with(|o| o.get()) {
            for a in [IoAct::FillBuf, IoAct::Write(1), IoAct::FillBuf, IoAct::Write(2), IoAct::FillBuf, IoAct::Write(N / 2 + 1), IoAct::FillBuf, IoAct::Read(1), IoAct::FillBuf, IoAct::Consume(1), IoAct::FillBuf] {
                match catch_unwind(AssertUnwindSafe(|| io_apply(&mut b, &a, via))) {
                    Ok(o) => v.push(o),
                    Err(_) => v.push(IoObs::Err("panic".into())),
                }
            }
        }
        *f.borrow_mut() = v;
    });
    if let Some(p) = quiet_drop(b) {
        probs.push(format!("dropping the buffer after {} panicked: {}", act.show(), p));
        return (obs, contents, key, probs, true);
    }
    (obs, contents, key, probs, false)
}

thread_local! {
    static FOLLOWUP_ON: std::cell::Cell<bool> = const { std::cell::Cell::new(false) };
    static FOLLOWUP: std::cell::RefCell<Vec<IoObs>> = const { std::cell::RefCell::new(Vec::new()) };
}
fn with_followup<R>(f: impl FnOnce() -> R) -> (R, Vec<IoObs>) {
    FOLLOWUP_ON.with(|o| o.set(true));
    let r = f();
    FOLLOWUP_ON.with(|o| o.set(false));
    (r, FOLLOWUP.with(|f| std::mem::take(&mut *f.borrow_mut())))
}

pub struct IoSpace {
    pub recipes: Vec<Vec<IoAct>>,
    pub fixpoint: bool,
    pub layouts: usize,
}

/// BFS to fixpoint over the whole I/O alphabet; `cb(recipe, act, obs, contents, key, problems)`.
pub fn io_explore<const N: usize>(via: Via, mut cb: impl FnMut(&[IoAct], &IoAct, &IoObs, &[u8], &[u8], &[String])) -> IoSpace {
    let cal = calibrate::<N>();
    let mut recipes: Vec<Vec<IoAct>> = vec![vec![]];
    let mut seen: HashMap<Vec<u8>, usize> = HashMap::new();
    {
        let (b, _) = rebuild::<N>(&[]);
        seen.insert(io_key(&b, &cal), 0);
    }
    let mut i = 0;
    let mut fixpoint = true;
    while i < recipes.len() {
        if recipes.len() > 300_000 {
            fixpoint = false;
            break;
        }
        let r = recipes[i].clone();
        for act in io_alphabet(N) {
            crate::set_case(&format!("n={}|ctor=new|recipe={}|filling=none|act={}|fault=none|extra={}", N, recipe_str(&r), act.show(), via.name()));
            let (obs, contents, key, probs, panicked) = io_case::<N>(&r, &act, via);
            cb(&r, &act, &obs, &contents, &key, &probs);
            if probs.is_empty() && !panicked && !seen.contains_key(&key) {
                seen.insert(key, recipes.len());
                let mut r2 = r.clone();
                r2.push(act);
                recipes.push(r2);
            }
        }
        i += 1;
    }
    let mut lay = std::collections::BTreeSet::new();
    for r in &recipes {
        let (b, _) = rebuild::<N>(r);
        let base = &*b as *const B<N> as usize;
        let front = b.front().map(|e| e as *const u8 as usize - base).unwrap_or(0);
        lay.insert((if b.is_empty() { 0 } else { front }, b.len()));
    }
    IoSpace { recipes, fixpoint, layouts: lay.len() }
}

fn io_violation(rep: &mut Report, prop: &str, n: usize, recipe: &[IoAct], act: &IoAct, via: Via, kind: &str, detail: &str) {
    let _ = prop;
    rep.violation(Violation {
        sig: format!("N={}:{}:{}:{}", n, act.name(), kind, via.name()),
        detail: format!("N={} state <{}> {} via {}: {}", n, show_recipe(recipe), act.show(), via.name(), detail),
        replay: ReplayCase { n, ctor: "new".into(), recipe: recipe_str(recipe), filling: "none".into(), act: act.show(), fault: "none".into(), extra: via.name().to_string() },
    });
}

pub fn c14_check<const N: usize>(_o: &Opts, rep: &mut Report) {
    let mut trans = 0u64;
    let mut nontrivial = 0u64;
    let mut outcomes = std::collections::HashSet::new();
    let mut viols: Vec<(Vec<IoAct>, IoAct, String)> = vec![];
    let mut samples: Vec<(String, String)> = vec![];
    let mut by_action: HashMap<&'static str, u64> = HashMap::new();
    let sp = io_explore::<N>(Via::Std, |r, act, obs, contents, _key, probs| {
        trans += 1;
        *by_action.entry(act.name()).or_insert(0) += 1;
        if !matches!(obs, IoObs::Unit | IoObs::Count(0) | IoObs::Opt(None)) {
            nontrivial += 1;
        }
        outcomes.insert(fnv_of(&(act.name(), format!("{:?}", obs).len(), contents.len())));
        // the deque actions only move the layout here; their semantics are C01's business
        if act.is_io() {
            for p in probs {
                viols.push((r.to_vec(), *act, p.clone()));
            }
        }
        if r.len() >= 2 && !matches!(obs, IoObs::Unit | IoObs::Count(0) | IoObs::Opt(None) | IoObs::Read(0, _, _)) && samples.len() < 10 && !samples.iter().any(|s| s.0 == act.name()) {
            samples.push((act.name().to_string(), format!("N={} state<{}> --{}--> {:?}; contents after {:?}", N, show_recipe(r), act.show(), obs, contents)));
        }
    });
    // the provided methods (read_exact, write_all, read_to_end, read_until, read_vectored, write_vectored) from
    // every reachable state, judged by their documented contracts: an impl is free to override them
    for r in &sp.recipes {
        for act in provided_alphabet(N, true) {
            crate::set_case(&format!("n={}|ctor=new|recipe={}|filling=none|act={}|fault=none|extra=std::io", N, recipe_str(r), act.show()));
            let (obs, contents, _key, probs, _) = io_case::<N>(r, &act, Via::Std);
            trans += 1;
            *by_action.entry(act.name()).or_insert(0) += 1;
            if !matches!(obs, IoObs::Unit | IoObs::Count(0) | IoObs::Read(0, _, _)) {
                nontrivial += 1;
            }
            outcomes.insert(fnv_of(&(act.name(), format!("{:?}", obs).len(), contents.len())));
            for p in probs {
                viols.push((r.to_vec(), act, p));
            }
        }
    }
    if N <= 6 {
        io_utf8::<N>("C14", rep);
    }
    rep.states += sp.recipes.len() as u64;
    rep.transitions += trans;
    rep.validated += trans;
    rep.evaluations += trans;
    rep.nontrivial += nontrivial;
    rep.outcomes.extend(outcomes);
    for (k, v) in by_action {
        *rep.by_action.entry(k.to_string()).or_insert(0) += v;
    }
    for (_, s) in samples {
        rep.samples.push(s);
    }
    rep.fixpoint = sp.fixpoint;
    rep.exhaustive = sp.fixpoint;
    rep.layouts = sp.layouts as u64;
    rep.expected_layouts = if N == 0 { 1 } else { (N * N + 1) as u64 };
    rep.diameter = sp.recipes.iter().map(|r| r.len() as u64).max().unwrap_or(0);
    for (r, act, p) in viols {
        let kind = if p.contains("panicked") { "panic" } else if p.contains("error") { "error" } else if p.contains("returned") { "return" } else { "contents" };
        io_violation(rep, "C14", N, &r, &act, Via::Std, kind, &p);
    }
}

/// C02 on byte buffers, one case: history `r`, one I/O call `a`, then `push` and `pop` at the same end.
pub fn c02_after_io<const N: usize>(r: &[IoAct], a: &IoAct, push: &IoAct, pop: &IoAct, via: Via) -> Option<String> {
    let (mut b, mut model) = rebuild_via::<N>(r, via);
    let o = catch_unwind(AssertUnwindSafe(|| io_apply(&mut b, a, via)));
    let exp = io_model(N, &mut model, a);
    match o {
        Err(_) => {
            std::mem::forget(b);
            return None;
        }
        Ok(o) => {
            if exp.is_some() && exp.as_ref() != Some(&o) {
                let _ = quiet_drop(b);
                return None;
            }
        }
    }
    match catch_unwind(AssertUnwindSafe(|| b.iter().copied().collect::<Vec<u8>>())) {
        Ok(c) if c != model => {
            let _ = quiet_drop(b);
            return None; // the I/O call itself is wrong: not this property's business
        }
        _ => {}
    }
    for step in [push, pop] {
        let want = io_model(N, &mut model, step);
        match catch_unwind(AssertUnwindSafe(|| io_apply(&mut b, step, via))) {
            Err(p) => {
                std::mem::forget(b);
                return Some(format!("{} straight after {} panicked: {}", step.show(), a.show(), crate::panic_text(&p)));
            }
            Ok(o) => {
                if want.as_ref() != Some(&o) {
                    let _ = quiet_drop(b);
                    return Some(format!("{} straight after {} (then {}) returned {:?}, expected {:?}", step.show(), a.show(), pop.show(), o, want));
                }
            }
        }
    }
    let _ = quiet_drop(b);
    None
}

/// C04 on byte buffers, one case: `act` and a fixed follow-up sequence from the state reached by `r`, and from a
/// buffer with equal contents built by `push_back` alone.  Some(description) if they can be told apart.
pub fn c04_pair<const N: usize>(r: &[IoAct], act: &IoAct) -> Option<String> {
    let via = default_via();
    let follow = [IoAct::HashIt, IoAct::PopFront, IoAct::PushBack, IoAct::TryPushFront, IoAct::Read(1), IoAct::Write(N / 2 + 1), IoAct::Consume(1), IoAct::PopBack, IoAct::Write(N), IoAct::HashIt, IoAct::Read(N)];
    let run = |mut b: Box<B<N>>| -> Vec<String> {
        let mut out = vec![];
        for a in std::iter::once(act).chain(follow.iter()) {
            let o = match catch_unwind(AssertUnwindSafe(|| {
                let o = io_apply(&mut b, a, via);
                let c: Vec<u8> = b.iter().copied().collect();
                (o, c)
            })) {
                // fill_buf shows where as_slices splits (exempt); what it returns must still be a
                // non-empty prefix of the contents
                Ok((IoObs::Bytes(s), c)) => format!("fill_buf prefix={} empty={} ; contents {:?}", c.starts_with(&s), s.is_empty(), c),
                Ok((o, c)) => format!("{:?} ; contents {:?}", o, c),
                Err(p) => format!("PANIC {}", crate::panic_text(&p)),
            };
            if o.starts_with("PANIC") {
                out.push(format!("{} -> {}", a.show(), o));
                std::mem::forget(b);
                return out;
            }
            out.push(format!("{} -> {}", a.show(), o));
        }
        if let Some(p) = quiet_drop(b) {
            out.push(format!("drop -> PANIC {}", p));
        }
        out
    };
    let (b1, _) = rebuild::<N>(r);
    let contents: Vec<u8> = b1.iter().copied().collect();
    let got = run(b1);
    let mut b2: Box<B<N>> = Box::new(B::<N>::new());
    for &x in &contents {
        b2.push_back(x);
    }
    let want = run(b2);
    if got == want {
        return None;
    }
    let at = got.iter().zip(want.iter()).position(|(a, b)| a != b).unwrap_or(got.len().min(want.len()));
    Some(format!(
        "equal contents {:?}, different behaviour at step {} of <{}; hash; pop_front; push_back; try_push_front; read(1); write; consume(1); pop_back; write(N); hash; read(N)>: after this history: {:?}; after push_back alone: {:?}",
        contents, at, act.show(), got.get(at), want.get(at)
    ))
}

pub fn replay_u8_twin<const N: usize>(c: &Case) -> Result<i32, String> {
    let recipe = parse_recipe(&c.recipe).ok_or("bad recipe")?;
    let act = IoAct::parse(&c.act).ok_or("bad action")?;
    println!("N={} CircularBuffer<N,u8> state <{}> {}", N, show_recipe(&recipe), act.show());
    let mut code = 0;
    if c.prop == "C04" {
        if let Some(p) = c04_pair::<N>(&recipe, &act) {
            println!("VIOLATION REPRODUCED: {}", p);
            code = 1;
        }
    } else if c.prop == "C02" && recipe.last().map(|a| a.is_io()).unwrap_or(false) {
        let (hist, a) = recipe.split_at(recipe.len() - 1);
        let pop = if matches!(act, IoAct::PushBack | IoAct::TryPushBack) { IoAct::PopBack } else { IoAct::PopFront };
        if let Some(p) = c02_after_io::<N>(hist, &a[0], &act, &pop, default_via()) {
            println!("VIOLATION REPRODUCED: {}", p);
            code = 1;
        }
    } else {
        let (o0, c0, _k, p0, _) = io_case::<N>(&recipe, &act, default_via());
        println!("  observed {:?}, contents after {:?}", o0, c0);
        for p in &p0 {
            if c.prop != "C11" || p.contains("panicked") {
                println!("VIOLATION REPRODUCED: {}", p);
                code = 1;
            }
        }
    }
    Ok(code)
}

/// The `CircularBuffer<N, u8>` twin of the element-level checks: the byte-I/O trait impls are operations of the
/// buffer too, and they move the front position by their own code.  The byte space (BFS to fixpoint over the I/O
/// alphabet incl. push/pop/try_push) is judged here for
///  * C01: the deque actions (and `Extend<&u8>`) against the sequence model,
///  * C02: push / try_push only,
///  * C11: no call panics, whatever I/O history led to the state,
///  * C04: model-free — every action from every reachable state gives the same observation, the same contents and
///    the same follow-up observations as from a buffer with equal contents built by `push_back` alone.
pub fn u8_twin<const N: usize>(prop: &str, rep: &mut Report) {
    let mut viols: Vec<(Vec<IoAct>, IoAct, String)> = vec![];
    let mut n = 0u64;
    let sp = io_explore::<N>(default_via(), |r, act, _obs, _contents, _key, probs| {
        let mine = match prop {
            "C01" => !act.is_io(),
            "C02" => matches!(act, IoAct::PushBack | IoAct::PushFront | IoAct::TryPushBack | IoAct::TryPushFront),
            "C11" => true,
            _ => false,
        };
        if mine {
            n += 1;
            for p in probs {
                if prop != "C11" || p.contains("panicked") {
                    viols.push((r.to_vec(), *act, p.clone()));
                }
            }
        }
    });
    if prop == "C02" {
        // push / try_push straight after every byte-I/O call (the I/O impls move the front by their own code):
        // I/O call; push; pop at the same end.  Judged only where the I/O call itself did what the model says, or
        // left a state that cannot even be read.
        let via = default_via();
        for r in &sp.recipes {
            for a in io_alphabet(N).into_iter().filter(|a| a.is_io()) {
                for (push, pop) in [(IoAct::PushBack, IoAct::PopBack), (IoAct::PushFront, IoAct::PopFront), (IoAct::TryPushBack, IoAct::PopBack), (IoAct::TryPushFront, IoAct::PopFront)] {
                    crate::set_case(&format!("n={}|ctor=new|recipe={}|filling=none|act={}|fault=none|extra=io", N, recipe_str(r), push.show()));
                    if let Some(p) = c02_after_io::<N>(r, &a, &push, &pop, via) {
                        let mut r2 = r.to_vec();
                        r2.push(a);
                        viols.push((r2, push, p));
                    }
                    n += 1;
                }
            }
        }
    }
    if prop == "C04" {
        let mut acts = io_alphabet(N);
        acts.push(IoAct::HashIt);
        for r in &sp.recipes {
            for act in &acts {
                crate::set_case(&format!("n={}|ctor=new|recipe={}|filling=none|act={}|fault=none|extra=io", N, recipe_str(r), act.show()));
                n += 1;
                if let Some(p) = c04_pair::<N>(r, act) {
                    viols.push((r.to_vec(), *act, p));
                }
            }
        }
    }
    rep.transitions += n;
    rep.validated += n;
    rep.evaluations += n;
    rep.nontrivial += n / 2;
    *rep.by_action.entry("CircularBuffer<N,u8> twin (byte I/O histories)".into()).or_insert(0) += n;
    rep.count("u8_twin_states", sp.recipes.len() as u64);
    for (r, act, p) in viols {
        rep.violation(Violation {
            sig: format!("N={}:{}:u8-twin", N, act.name()),
            detail: format!("N={} CircularBuffer<N,u8> state <{}> {}: {}", N, show_recipe(&r), act.show(), p),
            replay: ReplayCase { n: N, ctor: "new".into(), recipe: recipe_str(&r), filling: "none".into(), act: act.show(), fault: "none".into(), extra: "io".into() },
        });
    }
}

/// `Read::read_to_string` (a provided method an impl may override): every front rotation x every content that is a
/// sequence of {1, 2, 3, 4-byte characters, an invalid byte, a lone lead byte} of total length <= N, so that every
/// character kind straddles the wrap point at every offset.  Judged by the documented contract (C14) and for heap
/// allocations inside the call with a pre-sized destination (C17).
#[cfg(feature = "std")]
pub fn utf8_case<const N: usize>(rot: usize, content: &[u8], prefix: &str) -> (Vec<String>, u64) {
    let mut b: Box<B<N>> = Box::new(B::<N>::new());
    for _ in 0..rot {
        b.push_back(b'x');
    }
    for &c in content {
        b.push_back(c);
    }
    while b.len() > content.len() {
        b.pop_front();
    }
    let mut probs = vec![];
    let mut dst = String::with_capacity(4 * N + 256);
    dst.push_str(prefix);
    let a0 = crate::alloc::count();
    let r = catch_unwind(AssertUnwindSafe(|| std::io::Read::read_to_string(&mut *b, &mut dst)));
    let allocs = crate::alloc::count() - a0;
    let r = match r {
        Ok(r) => r,
        Err(p) => {
            std::mem::forget(b);
            return (vec![format!("read_to_string panicked: {}", crate::panic_text(&p))], 0);
        }
    };
    match (std::str::from_utf8(content), r) {
        (Ok(text), Ok(n)) => {
            if n != content.len() || dst != format!("{}{}", prefix, text) {
                probs.push(format!("read_to_string returned Ok({}) and the destination {:?}; the contents were {:?} ({} bytes)", n, dst, text, content.len()));
            }
            if !b.is_empty() {
                probs.push(format!("after a successful read_to_string {} byte(s) are still buffered", b.len()));
            }
        }
        (Ok(text), Err(e)) => probs.push(format!("read_to_string failed ({:?}) on valid UTF-8 {:?}", e.kind(), text)),
        (Err(_), Ok(n)) => probs.push(format!("read_to_string returned Ok({}) on invalid UTF-8 {:02x?}", n, content)),
        (Err(_), Err(e)) => {
            if e.kind() != std::io::ErrorKind::InvalidData {
                probs.push(format!("read_to_string on invalid UTF-8 failed with {:?}, documented: InvalidData", e.kind()));
            }
            if dst != prefix {
                probs.push(format!("read_to_string failed but changed the destination to {:?}", dst));
            }
        }
    }
    if let Some(p) = quiet_drop(b) {
        probs.push(format!("dropping the buffer after read_to_string panicked: {}", p));
    }
    (probs, allocs)
}

#[cfg(feature = "std")]
pub fn io_utf8<const N: usize>(prop: &str, rep: &mut Report) {
    const TOKENS: [&[u8]; 6] = [b"a", "\u{e9}".as_bytes(), "\u{20ac}".as_bytes(), "\u{1d11e}".as_bytes(), &[0xFF], &[0xC3]];
    fn gen(left: usize, cur: &mut Vec<u8>, out: &mut Vec<Vec<u8>>) {
        out.push(cur.clone());
        for t in TOKENS {
            if t.len() <= left {
                cur.extend_from_slice(t);
                gen(left - t.len(), cur, out);
                cur.truncate(cur.len() - t.len());
            }
        }
    }
    let mut contents = vec![];
    gen(N, &mut vec![], &mut contents);
    let mut n = 0u64;
    for rot in 0..N.max(1) {
        for c in &contents {
            for prefix in ["", "p"] {
                let hex: String = c.iter().map(|b| format!("{:02x}", b)).collect();
                crate::set_case(&format!("n={}|ctor=new|recipe={}|filling=none|act={}|fault=none|extra=utf8{}", N, rot, hex, prefix));
                let (probs, allocs) = utf8_case::<N>(rot, c, prefix);
                n += 1;
                let mut found: Vec<(String, &str)> = vec![];
                if prop == "C14" {
                    found.extend(probs.into_iter().map(|p| (p, "utf8")));
                } else if allocs > 0 && probs.iter().all(|p| !p.contains("panicked")) {
                    found.push((format!("{} heap allocation event(s) inside read_to_string (destination pre-sized)", allocs), "utf8-alloc"));
                }
                for (p, kind) in found {
                    rep.violation(Violation {
                        sig: format!("N={}:read_to_string:{}", N, kind),
                        detail: format!("N={} CircularBuffer<N,u8> front at slot {} holding bytes {:02x?}, read_to_string into {:?}: {}", N, rot, c, prefix, p),
                        replay: ReplayCase { n: N, ctor: "new".into(), recipe: rot.to_string(), filling: "none".into(), act: hex.clone(), fault: "none".into(), extra: format!("utf8{}", prefix) },
                    });
                }
            }
        }
    }
    rep.transitions += n;
    rep.validated += n;
    rep.evaluations += n;
    rep.nontrivial += n;
    *rep.by_action.entry("read_to_string".into()).or_insert(0) += n;
}
#[cfg(not(feature = "std"))]
pub fn io_utf8<const N: usize>(_prop: &str, _rep: &mut Report) {}

pub fn replay_utf8<const N: usize>(c: &Case) -> Result<i32, String> {
    #[cfg(feature = "std")]
    {
        let rot: usize = c.recipe.parse().map_err(|_| "bad rotation")?;
        let bytes: Vec<u8> = (0..c.act.len() / 2).map(|i| u8::from_str_radix(&c.act[2 * i..2 * i + 2], 16).unwrap_or(0)).collect();
        let prefix = c.extra.strip_prefix("utf8").unwrap_or("");
        let (probs, allocs) = utf8_case::<N>(rot, &bytes, prefix);
        println!("N={} front at slot {} bytes {:02x?} read_to_string into {:?}: {} allocation event(s) inside the call", N, rot, bytes, prefix, allocs);
        let mut code = 0;
        if c.prop == "C17" {
            if allocs > 0 {
                println!("VIOLATION REPRODUCED: the call allocated");
                code = 1;
            }
        } else {
            for p in probs {
                println!("VIOLATION REPRODUCED: {}", p);
                code = 1;
            }
        }
        return Ok(code);
    }
    #[allow(unreachable_code)]
    Err("std::io is not compiled into this build".into())
}

/// C17 on the byte-I/O impls: no call into them allocates (incl. the provided methods read_exact / write_all,
/// which an impl may override).  Only meaningful where std::io exists.
pub fn c17_io<const N: usize>(rep: &mut Report) {
    if !cfg!(feature = "std") {
        return;
    }
    let sp = io_explore::<N>(Via::Std, |_, _, _, _, _, _| {});
    let mut acts: Vec<IoAct> = io_alphabet(N).into_iter().filter(|a| a.is_io()).collect();
    for d in 0..=N + 2 {
        acts.push(IoAct::ReadExact(d));
    }
    for m in 0..=2 * N + 1 {
        acts.push(IoAct::WriteAll(m));
    }
    acts.extend(provided_alphabet(N, true).into_iter().filter(|a| matches!(a, IoAct::ReadVectored(..) | IoAct::WriteVectored(..) | IoAct::ReadToEnd | IoAct::ReadUntil(_))));
    let mut n = 0u64;
    for r in &sp.recipes {
        for act in &acts {
            let (mut b, _) = rebuild::<N>(r);
            IO_ALLOCS.with(|c| c.set(0));
            let res = catch_unwind(AssertUnwindSafe(|| io_apply(&mut b, act, Via::Std)));
            let allocs = IO_ALLOCS.with(|c| c.get());
            let _ = quiet_drop(b);
            n += 1;
            if res.is_ok() && allocs > 0 {
                rep.violation(Violation {
                    sig: format!("N={}:io-{}:alloc", N, act.name()),
                    detail: format!("N={} CircularBuffer<N,u8> state <{}> {}: {} heap allocation event(s) inside the call", N, show_recipe(r), act.show(), allocs),
                    replay: ReplayCase { n: N, ctor: "new".into(), recipe: recipe_str(r), filling: "none".into(), act: act.show(), fault: "none".into(), extra: "io-alloc".into() },
                });
            }
        }
    }
    rep.transitions += n;
    rep.validated += n;
    rep.evaluations += n;
    rep.nontrivial += n / 2;
    *rep.by_action.entry("byte I/O calls (allocation monitor)".into()).or_insert(0) += n;
    if N <= 6 {
        io_utf8::<N>("C17", rep);
    }
}

pub fn replay_io_alloc<const N: usize>(c: &Case) -> Result<i32, String> {
    let recipe = parse_recipe(&c.recipe).ok_or("bad recipe")?;
    let act = IoAct::parse(&c.act).ok_or("bad action")?;
    let (mut b, _) = rebuild::<N>(&recipe);
    IO_ALLOCS.with(|c| c.set(0));
    let o = io_apply(&mut b, &act, Via::Std);
    let allocs = IO_ALLOCS.with(|c| c.get());
    println!("N={} state <{}> {} -> {:?}; {} allocation event(s) inside the call", N, show_recipe(&recipe), act.show(), o, allocs);
    if allocs > 0 {
        println!("VIOLATION REPRODUCED: the call allocated");
    }
    Ok((allocs > 0) as i32)
}

/// Extension capacities far above the core range (thresholds like "more than 256 bytes"): a boundary-value
/// grid instead of a fixpoint — front rotations {0, 1, N/2, N-1} x lengths {0, 1, 2, N/2, N-1, N} x every
/// I/O action with sizes {0, 1, 2, 255, 256, 257, N-1, N, N+1, 2N+1, usize::MAX where meaningful}.
pub fn io_large<const N: usize>(prop: &str, rep: &mut Report) {
    let sizes: Vec<usize> = {
        let mut v = vec![0, 1, 2, 15, 16, 17, 255, 256, 257, N / 2, N - 1, N, N + 1, 2 * N + 1];
        v.sort();
        v.dedup();
        v
    };
    let mut acts = vec![IoAct::FillBuf, IoAct::Flush, IoAct::Consume(MAXI)];
    for &m in &sizes {
        acts.push(IoAct::Write(m));
        acts.push(IoAct::Read(m));
        acts.push(IoAct::Consume(m));
    }
    let mut vias = vec![];
    if cfg!(feature = "eio") {
        vias.push(Via::Eio);
    }
    if cfg!(feature = "eio-async") {
        vias.push(Via::EioAsync);
    }
    let mut states = 0u64;
    for rot in [0usize, 1, N / 2, N - 1] {
        for len in [0usize, 1, 2, N / 2, N - 1, N] {
            // history: move the front to `rot`, then hold `len` bytes
            let mut r: Vec<IoAct> = vec![];
            if rot > 0 {
                r.push(IoAct::Write(rot));
                r.push(IoAct::Consume(rot));
            }
            if len > 0 {
                r.push(IoAct::Write(len));
            }
            states += 1;
            for act in &acts {
                crate::set_case(&format!("n={}|ctor=new|recipe={}|filling=none|act={}|fault=none|extra=std::io", N, recipe_str(&r), act.show()));
                let (o0, c0, _k0, p0, _) = io_case::<N>(&r, act, Via::Std);
                rep.transitions += 1;
                rep.validated += 1;
                rep.evaluations += 1;
                rep.nontrivial += 1;
                rep.action(act.name());
                rep.outcomes.insert(fnv_of(&(act.name(), format!("{:?}", o0).len(), c0.len())));
                if prop == "C14" {
                    for p in &p0 {
                        let kind = if p.contains("panicked") { "panic" } else if p.contains("returned") { "return" } else { "contents" };
                        io_violation(rep, prop, N, &r, act, Via::Std, kind, p);
                    }
                    continue;
                }
                for &via in &vias {
                    let (o1, c1, _k1, _p1, _) = io_case_routed::<N>(&r, via, act, via);
                    rep.transitions += 1;
                    rep.validated += 1;
                    if matches!(o1, IoObs::Err(_) | IoObs::Pending) {
                        io_violation(rep, prop, N, &r, act, via, "fails", &format!("{:?}", o1));
                    } else if o0 != o1 {
                        io_violation(rep, prop, N, &r, act, via, "return-differs", &format!("std::io returned {:?}, {} returned {:?}", short(&o0), via.name(), short(&o1)));
                    } else if c0 != c1 {
                        io_violation(rep, prop, N, &r, act, via, "contents-differ", "contents after the call differ between std::io and the embedded trait");
                    }
                }
            }
        }
    }
    rep.states += states;
    rep.fixpoint = false;
    rep.notes.push(format!("N={}: extension capacity, boundary-value grid ({} histories x {} actions), not a fixpoint", N, states, acts.len()));
}

fn short(o: &IoObs) -> String {
    let s = format!("{:?}", o);
    if s.len() > 160 {
        format!("{}…", &s[..160])
    } else {
        s
    }
}

/// C16: from every state of the I/O space, every I/O action through std::io and through the
/// embedded trait(s) compiled into this build: identical observation, contents and memory image.
pub fn c16_check<const N: usize>(_o: &Opts, rep: &mut Report) {
    let mut vias = vec![];
    if cfg!(feature = "eio") {
        vias.push(Via::Eio);
    }
    if cfg!(feature = "eio-async") {
        vias.push(Via::EioAsync);
    }
    rep.notes.push(format!("N={} trait families compared with std::io in this build: {:?}", N, vias.iter().map(|v| v.name()).collect::<Vec<_>>()));
    if vias.is_empty() {
        rep.notes.push("no embedded-io feature in this build: nothing compared".into());
        rep.exhaustive = false;
        return;
    }
    // the state space is explored through std::io (C14's space)
    let sp = io_explore::<N>(Via::Std, |_, _, _, _, _, _| {});
    rep.states += sp.recipes.len() as u64;
    rep.fixpoint = sp.fixpoint;
    rep.exhaustive = sp.fixpoint;
    rep.layouts = sp.layouts as u64;
    rep.expected_layouts = if N == 0 { 1 } else { (N * N + 1) as u64 };
    for r in &sp.recipes {
        for act in io_alphabet(N).into_iter().filter(|a| a.is_io()).chain(provided_alphabet(N, false)) {
            let ((o0, c0, _k0, p0, _), f0) = with_followup(|| io_case::<N>(r, &act, Via::Std));
            // read_exact beyond the end fails in every trait family; what it consumed before failing is unspecified
            let failed_exact = matches!(act, IoAct::ReadExact(_)) && matches!(o0, IoObs::Err(_));
            for &via in &vias {
                crate::set_case(&format!("n={}|ctor=new|recipe={}|filling=none|act={}|fault=none|extra={}", N, recipe_str(r), act.show(), via.name()));
                let ((o1, c1, _k1, p1, _), f1) = with_followup(|| io_case::<N>(r, &act, via));
                if failed_exact {
                    rep.transitions += 1;
                    rep.validated += 1;
                    rep.evaluations += 1;
                    rep.action(act.name());
                    if o0 != o1 {
                        io_violation(rep, "C16", N, r, &act, via, "return-differs", &format!("std::io returned {:?}, {} returned {:?}", o0, via.name(), o1));
                    }
                    continue;
                }
                if o0 == o1 && c0 == c1 && f0 != f1 {
                    let at = f0.iter().zip(f1.iter()).position(|(a, b)| a != b).unwrap_or(0);
                    io_violation(rep, "C16", N, r, &act, via, "after-effect-differs", &format!("same result and contents, but what the call leaves behind differs: follow-up step {} (fill_buf / write(1) / fill_buf / write(2) / fill_buf / ...) gives {:?} after std::io and {:?} after {}", at, f0.get(at), f1.get(at), via.name()));
                }
                rep.transitions += 1;
                rep.validated += 1;
                rep.evaluations += 1;
                rep.action(act.name());
                if !matches!(o0, IoObs::Unit | IoObs::Count(0)) {
                    rep.nontrivial += 1;
                }
                rep.outcomes.insert(fnv_of(&(act.name(), via.name(), format!("{:?}", o1).len(), c1.len())));
                if r.len() >= 2 {
                    let s = format!("N={} state<{}> {}: std::io gives {:?} contents {:?}; {} gives {:?} contents {:?}", N, show_recipe(r), act.show(), o0, c0, via.name(), o1, c1);
                    rep.sample(&format!("{}-{}", act.name(), via.name()), move || s);
                }
                if matches!(o1, IoObs::Err(_)) || matches!(o1, IoObs::Pending) {
                    io_violation(rep, "C16", N, r, &act, via, "fails", &format!("{:?}", o1));
                } else if o0 != o1 {
                    io_violation(rep, "C16", N, r, &act, via, "return-differs", &format!("std::io returned {:?}, {} returned {:?}", o0, via.name(), o1));
                } else if c0 != c1 {
                    io_violation(rep, "C16", N, r, &act, via, "contents-differ", &format!("contents after: std::io {:?}, {} {:?}", c0, via.name(), c1));
                } else if p0.is_empty() && !p1.is_empty() {
                    io_violation(rep, "C16", N, r, &act, via, "model", &p1.join("; "));
                }
                // the same history driven through the embedded traits from the start: whatever they leave
                // behind internally must not become visible through later calls (e.g. fill_buf)
                let (o2, c2, _k2, _p2, _) = io_case_routed::<N>(r, via, &act, via);
                rep.transitions += 1;
                rep.validated += 1;
                if !matches!(o2, IoObs::Unavailable) && (o0 != o2 || c0 != c2) {
                    io_violation(rep, "C16", N, r, &act, via, "history-differs", &format!("whole history through std::io: {:?} contents {:?}; whole history through {}: {:?} contents {:?}", o0, c0, via.name(), o2, c2));
                }
            }
        }
    }
}

pub fn replay_io<const N: usize>(c: &Case) -> Result<i32, String> {
    if c.extra == "io-alloc" {
        return replay_io_alloc::<N>(c);
    }
    let recipe = parse_recipe(&c.recipe).ok_or("bad recipe")?;
    let act = IoAct::parse(&c.act).ok_or("bad action")?;
    let via = match c.extra.as_str() {
        "embedded_io" => Via::Eio,
        "embedded_io_async" => Via::EioAsync,
        _ => Via::Std,
    };
    let (o0, c0, k0, p0, _) = io_case::<N>(&recipe, &act, Via::Std);
    println!("N={} state <{}> {}", N, show_recipe(&recipe), act.show());
    println!("  std::io: {:?} contents after {:?}", o0, c0);
    let mut code = 0;
    if c.prop == "C14" || c.prop == "C01" {
        for p in &p0 {
            println!("VIOLATION REPRODUCED: {}", p);
            code = 1;
        }
    } else {
        let (_, f0) = with_followup(|| io_case::<N>(&recipe, &act, Via::Std));
        let ((o1, c1, k1, _p1, _), f1) = with_followup(|| io_case::<N>(&recipe, &act, via));
        println!("  {}: {:?} contents after {:?}", via.name(), o1, c1);
        if f0 != f1 {
            println!("  follow-up observations after std::io: {:?}", f0);
            println!("  follow-up observations after {}: {:?}", via.name(), f1);
            println!("VIOLATION REPRODUCED: what the call leaves behind differs between the two trait families");
            return Ok(1);
        }
        if matches!(o1, IoObs::Unavailable) {
            return Err("that trait family is not compiled into this build".into());
        }
        let _ = (&k0, &k1);
        if o0 != o1 || c0 != c1 || matches!(o1, IoObs::Err(_) | IoObs::Pending) {
            println!("VIOLATION REPRODUCED: the two trait families differ (or the embedded one fails)");
            code = 1;
        }
    }
    Ok(code)
}
