//! Deviation-bounded fault enumeration (DESIGN §3.6): C05 (panicking destructor), C06 (panicking
//! user code), C10 (leaked drain).  Exactly one deviation per operation; every crash point k.

use crate::act::*;
use crate::checks::{finish_space, Case, Opts};
use crate::exec::*;
use crate::explore::*;
use crate::ledger::{self, FaultKind, E};
use crate::model;
use crate::report::*;
use crate::sut::*;
use std::panic::{catch_unwind, AssertUnwindSafe};

/// Follow-up operations run after the fault against a model seeded from the observed contents.
pub fn battery(n: usize) -> Vec<Act> {
    use Act::*;
    vec![
        PushBack,
        PushFront,
        Get(0),
        PopBack,
        ExtendFromSlice(2),
        Remove(0),
        Drain(Rs { sk: 2, a: 0, ek: 1, b: 1 }, Script::all_front(1), Fin::Drop),
        MakeContiguous,
        PopFront,
        Extend(n + 1),
        TruncateFront(1),
        FillSpare,
        Clear,
        TryPushBack,
    ]
}

pub struct FaultOutcome {
    /// layout key of the buffer right after the deviation (None if consumed / not observable)
    pub post_key: Option<Vec<u8>>,
    pub fired: bool,
    pub panicked: bool,
    pub problems: Vec<(Problem, &'static str)>,
    pub summary: String,
}

fn pb(kind: PKind, detail: String) -> Problem {
    Problem { kind, detail }
}

/// Outcome of one follow-up step, comparable between the faulted buffer and an un-faulted reference.
pub type RefStep = (bool, Vec<model::Obs>, Vec<ledger::Tag>);

thread_local! {
    static REF_CACHE: std::cell::RefCell<std::collections::HashMap<(usize, usize, usize), Vec<RefStep>>> = std::cell::RefCell::new(std::collections::HashMap::new());
    static LAYOUTS: std::cell::RefCell<std::collections::HashMap<(usize, usize, usize), Recipe>> = std::cell::RefCell::new(std::collections::HashMap::new());
}

/// Register the layout representatives of the explored space (so that references have the same front slot).
pub fn register_layouts<const N: usize>(sp: &Space) {
    LAYOUTS.with(|l| {
        let mut l = l.borrow_mut();
        for st in &sp.states {
            l.entry((N, st.layout.0, st.layout.1)).or_insert_with(|| st.recipe.clone());
        }
    });
}

/// How the follow-up battery behaves on an *un-faulted* buffer with the same length (and, where the
/// explored space has one, the same front slot).  Computed on a helper thread, which has its own ledger.
fn reference_battery<const N: usize>(front: usize, len: usize) -> Vec<RefStep> {
    if let Some(v) = REF_CACHE.with(|c| c.borrow().get(&(N, front, len)).cloned()) {
        return v;
    }
    let recipe = LAYOUTS
        .with(|l| l.borrow().get(&(N, front, len)).cloned())
        .unwrap_or(Recipe { ctor: Ctor::FromIter(len.min(N)), acts: vec![] });
    let v: Vec<RefStep> = std::thread::scope(|s| {
        s.spawn(move || {
            let mut sut = rebuild::<N>(&recipe);
            let mut keep: Hold<N> = Hold::default();
            let mut out = vec![];
            for a in battery(N) {
                let r = exec_step(&mut sut, &a, None, &mut keep);
                out.push((r.panicked, r.trace.clone(), r.post_tags.clone()));
                keep.elems.clear();
            }
            drop(final_drop(sut, keep));
            out
        })
        .join()
        .unwrap_or_default()
    });
    REF_CACHE.with(|c| c.borrow_mut().insert((N, front, len), v.clone()));
    v
}

/// Checks common to C05 / C06 / C10 after the deviation: validity, normal behaviour, final drop.
/// "Behaves normally" is judged *differentially*: the follow-up battery must behave exactly as it does
/// on an un-faulted buffer of the same implementation with the same length/front slot, so a defect
/// that has nothing to do with the deviation (a plain functional bug: C01's business) raises no alarm here.
fn aftermath<const N: usize>(
    mut sut: Sut<N>,
    mut keep: Hold<N>,
    rec: &StepRec,
    tolerate_leak: bool,
    out: &mut Vec<(Problem, &'static str)>,
) {
    let bad: Vec<String> = rec.events.iter().filter(|e| e.is_bad()).map(|e| e.show()).collect();
    if !bad.is_empty() {
        out.push((pb(PKind::BadEvent, format!("during the operation: {}", bad.join(", "))), "op"));
    }
    if !rec.consumed {
        // 1. validity
        let mut valid = true;
        if let Err(e) = rec.post.views_agree() {
            out.push((pb(PKind::Views, format!("after the caught panic/leak: {}", e)), "validity"));
            valid = false;
        } else {
            let mut ids = rec.post.iter.clone();
            ids.sort();
            let n0 = ids.len();
            ids.dedup();
            if ids.len() != n0 {
                out.push((pb(PKind::Duplicate, format!("buffer holds an element twice: {}", model::show_tags(&rec.post_tags))), "validity"));
                valid = false;
            }
            if let Some(id) = rec.post.iter.iter().find(|id| !rec.live.contains(id)) {
                out.push((
                    pb(
                        PKind::DeadReachable,
                        format!("buffer of length {} holds a destroyed element (id {}): {}", rec.post.len, id, model::show_tags(&rec.post_tags)),
                    ),
                    "validity",
                ));
                valid = false;
            }
            if let Some(id) = rec.post.iter.iter().find(|id| rec.held.contains(id)) {
                out.push((
                    pb(PKind::Duplicate, format!("element id {} is both in the buffer and owned by the caller", id)),
                    "validity",
                ));
                valid = false;
            }
        }
        // 2. behaves normally from here on
        if valid {
            let front = rec.post.occ().first().copied().unwrap_or(usize::MAX);
            let reference = reference_battery::<N>(front, rec.post.len);
            for (k, a) in battery(N).into_iter().enumerate() {
                let r = exec_step(&mut sut, &a, None, &mut keep);
                let exp = model::expect(N, r.pre.len, &a);
                let mut stop = false;
                // ownership judgements are absolute
                for p in judge(&r, &exp) {
                    if matches!(p.kind, PKind::BadEvent | PKind::DeadReachable | PKind::Duplicate | PKind::Views) {
                        out.push((pb(p.kind, format!("follow-up {}: {}", a, p.detail)), "follow-up"));
                        stop = true;
                    }
                }
                // functional behaviour is judged against the un-faulted reference
                let mine: RefStep = (r.panicked, r.trace.clone(), r.post_tags.clone());
                if reference.get(k) != Some(&mine) {
                    let want = reference.get(k).map(|w| format!("{} <{}> {}", if w.0 { "panics" } else { "returns" }, model::show_trace(&w.1), model::show_tags(&w.2))).unwrap_or_else(|| "(no reference)".into());
                    out.push((
                        pb(
                            PKind::Trace,
                            format!(
                                "follow-up {} {} <{}> contents {}, but on an un-faulted buffer with the same contents it {}",
                                a,
                                if r.panicked { "panics" } else { "returns" },
                                model::show_trace(&r.trace),
                                model::show_tags(&r.post_tags),
                                want
                            ),
                        ),
                        "follow-up",
                    ));
                    stop = true;
                }
                // returned elements are dropped right away, like a caller would
                let _ = ledger::take_events();
                keep.elems.clear();
                let ev = ledger::take_events();
                if ev.iter().any(|e| e.is_bad()) {
                    out.push((pb(PKind::BadEvent, format!("dropping what follow-up {} returned: {}", a, ev.iter().filter(|e| e.is_bad()).map(|e| e.show()).collect::<Vec<_>>().join(", "))), "follow-up"));
                    stop = true;
                }
                if stop {
                    break;
                }
            }
        }
    }
    // 3. final drop
    for p in final_drop(sut, keep) {
        match p.kind {
            PKind::Leak if tolerate_leak => {}
            _ => out.push((p, "final-drop")),
        }
    }
}

/// One deviation run: state, action, fault (None for C10's leak).
pub fn fault_case<const N: usize>(prop: &str, recipe: &Recipe, act: &Act, fault: Option<(FaultKind, u32)>) -> FaultOutcome {
    crate::set_case(&format!(
        "n={}|ctor={}|recipe={}|filling=none|act={}|fault={}",
        N,
        recipe.ctor,
        recipe.acts_str(),
        act,
        show_fault(fault)
    ));
    let mut sut = rebuild::<N>(recipe);
    let mut keep: Hold<N> = Hold::default();
    let rec = exec_step(&mut sut, act, fault, &mut keep);
    let mut problems = vec![];
    let summary = format!(
        "N={} state<{}> --{} with {}--> {} <{}> contents {} events[{}]",
        N,
        recipe.show(),
        act,
        show_fault(fault),
        if rec.panicked { "panicked" } else { "returned" },
        model::show_trace(&rec.trace),
        model::show_tags(&rec.post_tags),
        rec.events.iter().map(|e| e.show()).collect::<Vec<_>>().join(",")
    );
    let post_key = if !rec.consumed && rec.post.views_agree().is_ok() { Some(key_layout(&rec.post)) } else { None };
    if fault.is_some() && !rec.fired {
        drop(final_drop(sut, keep));
        return FaultOutcome { post_key, fired: false, panicked: rec.panicked, problems, summary };
    }
    if prop == "C10" {
        // contents must be drawn from the original contents
        if let Some(t) = rec.post_tags.iter().find(|t| **t >= ledger::TAG_ARG) {
            problems.push((pb(PKind::Contents, format!("after leaking the drain the buffer holds {} which was never in it", ledger::tag_str(*t))), "validity"));
        }
    }
    aftermath(sut, keep, &rec, prop != "C06", &mut problems);
    FaultOutcome { post_key, fired: true, panicked: rec.panicked, problems, summary }
}

/// (action, fault kind) pairs per property, for a state of length `len`.
pub fn fault_alphabet(prop: &str, n: usize, len: usize) -> Vec<(Act, Vec<FaultKind>)> {
    use Act::*;
    use FaultKind as K;
    let idx = idx_domain(n);
    let mut v: Vec<(Act, Vec<FaultKind>)> = vec![];
    match prop {
        "C05" => {
            let d = vec![K::Drop];
            for &k in &idx {
                v.push((TruncateBack(k), d.clone()));
                v.push((TruncateFront(k), d.clone()));
            }
            v.push((Clear, d.clone()));
            v.push((Fill, d.clone()));
            v.push((FillWith, d.clone()));
            for m in 0..=2 * n + 1 {
                v.push((ExtendFromSlice(m), d.clone()));
                v.push((Extend(m), d.clone()));
                v.push((ExtendPairs(m), d.clone()));
            }
            for m in 0..=n {
                v.push((CloneFrom(m, 0), d.clone()));
                if n > 1 {
                    v.push((CloneFrom(m, n - 1), d.clone()));
                }
            }
            for a in 0..=len {
                for b in a..=len {
                    // (beyond the core capacities only short consumption prefixes are enumerated)
                    for s in Script::all_up_to((b - a).min(if n > 8 { 3 } else { usize::MAX })) {
                        v.push((Drain(Rs::half_open(a, b), s, Fin::Drop), d.clone()));
                    }
                }
            }
            for s in Script::all_up_to(len.min(if n > 8 { 4 } else { usize::MAX })) {
                v.push((IntoIter(s), d.clone()));
            }
            // a destructor panicking while nth()/nth_back() skips elements of a drain / owning iterator
            if n <= 8 {
                for act in steps_probes(n, len, &[4, 5], 2) {
                    v.push((act, d.clone()));
                }
            }
            for m in 0..=n {
                v.push((ExtendFromBuf(m, 0), d.clone()));
                if n > 1 {
                    v.push((ExtendFromBuf(m, n - 1), d.clone()));
                }
                v.push((IntoIterCloneFrom(len.min(1), m, m.min(1)), d.clone()));
            }
            v.push((DropBuf, d.clone()));
        }
        "C06" => {
            for m in 0..=2 * n + 1 {
                v.push((ExtendFromSlice(m), vec![K::Clone]));
                v.push((Extend(m), vec![K::IterNext]));
                v.push((ExtendHint(m, 0), vec![K::IterNext]));
                v.push((ExtendHint(m, 2), vec![K::IterNext]));
                v.push((ExtendHint(m, 5), vec![K::IterNext])); // lower bound too high: nothing may be reserved on trust
                v.push((ExtendHint(m, 6), vec![K::IterNext]));
                v.push((ExtendPairs(m), vec![K::IterNext]));
            }
            v.push((Fill, vec![K::Clone]));
            v.push((FillSpare, vec![K::Clone]));
            v.push((FillWith, vec![K::Closure]));
            v.push((FillSpareWith, vec![K::Closure]));
            v.push((CloneBuf, vec![K::Clone]));
            for s in Script::all_up_to(len.min(2)) {
                v.push((IntoIterClone(s), vec![K::Clone]));
            }
            for m in 0..=n.min(6) {
                for a in 0..=len.min(1) {
                    for b in 0..=m.min(1) {
                        v.push((IntoIterCloneFrom(a, m, b), vec![K::Clone]));
                    }
                }
            }
            v.push((ToVec, vec![K::Clone]));
            for m in 0..=n {
                v.push((CloneFrom(m, 0), vec![K::Clone]));
                if n > 1 {
                    v.push((CloneFrom(m, n - 1), vec![K::Clone]));
                }
                v.push((EqOther(m), vec![K::Eq]));
                v.push((CmpOther(m), vec![K::PartialCmp, K::Cmp]));
            }
            v.push((EqSelfClone, vec![K::Eq]));
            v.push((EqSlice, vec![K::Eq]));
            v.push((CmpSelfClone, vec![K::PartialCmp, K::Cmp]));
        }
        "C10" => {
            for a in 0..=len {
                for b in a..=len {
                    for s in Script::all_up_to((b - a + 1).min(if n > 8 { 4 } else { usize::MAX })) {
                        v.push((Drain(Rs::half_open(a, b), s, Fin::Forget), vec![]));
                    }
                }
            }
            // derived iterator methods (an impl may override them) before the leak: every sequence of <= 2 steps over
            // next / next_back / nth / nth_back (1, 2, usize::MAX) and the short-circuiting consumers
            for a in crate::explore::steps_probes(n, len, &[6], 2) {
                v.push((a, vec![]));
            }
            // a few other bound shapes denoting the same ranges
            v.push((Drain(Rs { sk: 2, a: 0, ek: 2, b: 0 }, Script::all_front(len.min(1)), Fin::Forget), vec![]));
            if len > 0 {
                v.push((Drain(Rs { sk: 0, a: 0, ek: 0, b: len - 1 }, Script::all_back(1), Fin::Forget), vec![]));
                v.push((Drain(Rs { sk: 1, a: 0, ek: 2, b: 0 }, Script::all_front(1), Fin::Forget), vec![]));
            }
        }
        _ => unreachable!(),
    }
    v
}

fn record_fault(rep: &mut Report, n: usize, recipe: &Recipe, act: &Act, fault: Option<(FaultKind, u32)>, p: &Problem, stage: &str) {
    record(rep, n, recipe, &[], act, fault, p, stage);
}

/// The destructor-panic space of C05 re-judged for another property: only "a destructor ran on something
/// that was not a live element" (double drop / dead element reachable) is reported, under `prop`.
/// C04 ("no operation destroys a slot that holds no live element") and C12 ("destroys the rest exactly
/// once") are stated for all runs, including those in which a destructor panics.
pub fn destroyed_twice_space<const N: usize>(prop: &str, sp: &Space, o: &Opts, rep: &mut Report, filter: &dyn Fn(&Act) -> bool) {
    register_layouts::<N>(sp);
    for (i, st) in sp.states.iter().enumerate() {
        if !o.mine(i) {
            continue;
        }
        for (act, kinds) in fault_alphabet("C05", N, st.len) {
            if !filter(&act) {
                continue;
            }
            let base = transition::<N>(&st.recipe, &[], &act, None);
            for kind in kinds {
                for k in 1..=base.rec.counts[kind as usize] {
                    let out = fault_case::<N>("C05", &st.recipe, &act, Some((kind, k)));
                    rep.transitions += 1;
                    rep.evaluations += 1;
                    if !out.fired {
                        continue;
                    }
                    rep.validated += 1;
                    rep.nontrivial += 1;
                    rep.count("runs_with_a_panicking_destructor", 1);
                    for (p, stage) in &out.problems {
                        if matches!(p.kind, PKind::BadEvent | PKind::DeadReachable | PKind::Duplicate) {
                            record(rep, N, &st.recipe, &[], &act, Some((kind, k)), p, stage);
                        }
                    }
                }
            }
        }
    }
    let _ = prop;
}

pub fn fault_check<const N: usize>(prop: &str, o: &Opts, rep: &mut Report) {
    let limits = Limits::default();
    rep.notes.push(format!("N={} {}", N, calib::<N>().note));
    let sp = {
        let mut cb = |_i: usize, _st: &State, _a: &Act, _t: &Trans| {};
        explore::<N>(KeyMode::Layout, &limits, &grow_alphabet, &mut cb)
    };
    register_layouts::<N>(&sp);
    for (i, st) in sp.states.iter().enumerate() {
        if !o.mine(i) {
            continue;
        }
        for (act, kinds) in fault_alphabet(prop, N, st.len) {
            if kinds.is_empty() {
                // C10: the deviation is the leak itself
                let out = fault_case::<N>(prop, &st.recipe, &act, None);
                member(rep, &sp, &out);
                tally(rep, &st.recipe, &act, None, &out);
                continue;
            }
            // 0-deviation run: how many user-code invocations of each kind?
            let base = transition::<N>(&st.recipe, &[], &act, None);
            rep.count("baseline_runs", 1);
            for kind in kinds {
                let k_max = base.rec.counts[kind as usize];
                for k in 1..=k_max {
                    let out = fault_case::<N>(prop, &st.recipe, &act, Some((kind, k)));
                    member(rep, &sp, &out);
                    tally(rep, &st.recipe, &act, Some((kind, k)), &out);
                }
            }
        }
    }
    finish_space(rep, &sp);
    // constructors that run user code / destructors
    if o.shard.0 == 0 {
        ctor_faults::<N>(prop, rep);
        crate::zst::zst_twin::<N>(prop, rep);
    }

    /// Is the state right after the deviation one of the states whose whole future the fault-free
    /// exploration (C01/C03/C04 fixpoint) covers?  If so, "arbitrary further operations" are covered by
    /// induction, not only by the follow-up battery.  (A counter, never a verdict.)
    fn member(rep: &mut Report, sp: &Space, out: &FaultOutcome) {
        if !out.fired && out.post_key.is_none() {
            return;
        }
        match &out.post_key {
            Some(k) if sp.index.contains_key(k) => rep.count("post_deviation_state_is_in_the_explored_fixpoint", 1),
            Some(_) => rep.count("post_deviation_state_outside_the_explored_fixpoint", 1),
            None => rep.count("post_deviation_state_not_observable_or_consumed", 1),
        }
    }

    fn tally(rep: &mut Report, recipe: &Recipe, act: &Act, fault: Option<(FaultKind, u32)>, out: &FaultOutcome) {
        rep.transitions += 1;
        rep.evaluations += 1;
        rep.action(act.name());
        if fault.is_some() && !out.fired {
            rep.count("fault_not_reached", 1);
            return;
        }
        rep.validated += 1;
        rep.nontrivial += 1;
        rep.outcomes.insert(fnv_of(&out.summary.split("-->").nth(1).unwrap_or("").to_string()) ^ fnv_of(act.name()));
        let s = out.summary.clone();
        rep.sample(&format!("{}{}", act.name(), recipe.acts.len().min(1)), move || s);
        let n = out.summary.split(' ').next().and_then(|x| x.strip_prefix("N=")).and_then(|x| x.parse().ok()).unwrap_or(0);
        for (p, stage) in &out.problems {
            record_fault(rep, n, recipe, act, fault, p, stage);
        }
    }
}

struct FaultyRange {
    next: usize,
    end: usize,
}
impl Iterator for FaultyRange {
    type Item = E;
    fn next(&mut self) -> Option<E> {
        if ledger::fault_point(FaultKind::IterNext) {
            panic!("injected fault: iterator next");
        }
        if self.next < self.end {
            self.next += 1;
            Some(E::with_tag(ledger::t_a(self.next - 1)))
        } else {
            None
        }
    }
}

macro_rules! from_array_faulty {
    ($n:ident, $m:expr; $($k:literal)*) => {
        match $m {
            $($k => { let arr = make_array::<$k>(); let _ = ledger::take_events(); ledger::begin_call(); Cb::<$n>::from(arr) })*
            _ => panic!("from_array: M out of supported range"),
        }
    };
}

/// One constructor run with a fault: returns problems.
pub fn ctor_fault_case<const N: usize>(prop: &str, ctor: Ctor, fault: Option<(FaultKind, u32)>) -> (bool, [u32; 7], Vec<(Problem, &'static str)>, String) {
    crate::set_case(&format!("n={}|ctor={}|recipe=|filling=none|act=ctor-fault|fault={}", N, ctor, show_fault(fault)));
    ledger::reset();
    let _ = calib::<N>();
    ledger::reset();
    ledger::arm(fault);
    let r = catch_unwind(AssertUnwindSafe(|| -> Box<Cb<N>> {
        match ctor {
            Ctor::FromArray(m) => Box::new(from_array_faulty!(N, m; 0 1 2 3 4 5 6 7 8 9 10 11 12 13 14 15 16 17 18 19)),
            Ctor::FromIter(m) => {
                ledger::begin_call();
                Box::new(FaultyRange { next: 0, end: m }.collect::<Cb<N>>())
            }
            Ctor::FromIterHint(m, hint) => {
                let v: Vec<E> = (0..m).map(|j| E::with_tag(ledger::t_a(j))).collect();
                let _ = ledger::take_events();
                ledger::begin_call();
                Box::new(FaultyIter { inner: v.into_iter(), hint, slack: 2 * N + 3 }.collect::<Cb<N>>())
            }
            _ => unreachable!(),
        }
    }));
    let (events, counts, fired) = ledger::end_call();
    let mut problems = vec![];
    let bad: Vec<String> = events.iter().filter(|e| e.is_bad()).map(|e| e.show()).collect();
    if !bad.is_empty() {
        problems.push((pb(PKind::BadEvent, format!("during construction: {}", bad.join(", "))), "op"));
    }
    let summary = format!(
        "N={} {} with {} --> {} events[{}]",
        N,
        ctor,
        show_fault(fault),
        if r.is_err() { "panicked" } else { "returned" },
        events.iter().map(|e| e.show()).collect::<Vec<_>>().join(",")
    );
    match r {
        Ok(b) => {
            let sut = Sut { b: Some(b), cal: calib_cached::<N>() };
            for p in final_drop(sut, Hold::default()) {
                if p.kind == PKind::Leak && prop == "C05" {
                    continue;
                }
                problems.push((p, "final-drop"));
            }
        }
        Err(_) => {
            // nothing is reachable any more: everything created must be dead (C06), nothing dropped twice
            let live = ledger::live_ids();
            if prop == "C06" && !live.is_empty() {
                problems.push((pb(PKind::Leak, format!("{} element(s) created before the panic were never destroyed", live.len())), "unwind"));
            }
        }
    }
    (fired, counts, problems, summary)
}

fn calib_cached<const N: usize>() -> Calib {
    calib::<N>()
}

pub fn ctor_faults<const N: usize>(prop: &str, rep: &mut Report) {
    let mut cases: Vec<(Ctor, FaultKind)> = vec![];
    for m in 0..=(2 * N + 1).min(MAX_FROM_ARRAY) {
        match prop {
            "C05" => {
                cases.push((Ctor::FromArray(m), FaultKind::Drop));
                cases.push((Ctor::FromIter(m), FaultKind::Drop));
            }
            "C06" => {
                cases.push((Ctor::FromIter(m), FaultKind::IterNext));
                cases.push((Ctor::FromIterHint(m, 0), FaultKind::IterNext));
                cases.push((Ctor::FromIterHint(m, 2), FaultKind::IterNext));
                cases.push((Ctor::FromIterHint(m, 5), FaultKind::IterNext));
                cases.push((Ctor::FromIterHint(m, 6), FaultKind::IterNext));
            }
            _ => {}
        }
    }
    for (ctor, kind) in cases {
        let (_, counts, _, _) = ctor_fault_case::<N>(prop, ctor, None);
        for k in 1..=counts[kind as usize] {
            let fault = Some((kind, k));
            let (fired, _, problems, summary) = ctor_fault_case::<N>(prop, ctor, fault);
            rep.transitions += 1;
            rep.evaluations += 1;
            rep.action("constructor");
            if !fired {
                rep.count("fault_not_reached", 1);
                continue;
            }
            rep.validated += 1;
            rep.nontrivial += 1;
            rep.outcomes.insert(fnv_of(&summary));
            let s = summary.clone();
            rep.sample(&format!("ctor{}", kind.name()), move || s);
            for (p, stage) in problems {
                rep.violation(Violation {
                    sig: format!("N={}:constructor-{}:{}@{}:fault={}", N, ctor.to_string().split('(').next().unwrap_or(""), p.kind.name(), stage, kind.name()),
                    detail: format!("{}: {}", summary, p.detail),
                    replay: ReplayCase {
                        n: N,
                        ctor: ctor.to_string(),
                        recipe: String::new(),
                        filling: "none".into(),
                        act: "ctor-fault".into(),
                        fault: show_fault(fault),
                        extra: String::new(),
                    },
                });
            }
        }
    }
}

pub fn replay_fault<const N: usize>(c: &Case) -> Result<i32, String> {
    let fault = parse_fault(&c.fault).ok_or("bad fault")?;
    if c.act == "ctor-fault" {
        let ctor = Ctor::parse(&c.ctor).ok_or("bad ctor")?;
        let (fired, _, problems, summary) = ctor_fault_case::<N>(&c.prop, ctor, fault);
        println!("{} (fault reached: {})", summary, fired);
        for (p, stage) in &problems {
            println!("VIOLATION REPRODUCED: [{}@{}] {}", p.kind.name(), stage, p.detail);
        }
        return Ok(if problems.is_empty() { 0 } else { 1 });
    }
    let recipe = Recipe::parse(&c.ctor, &c.recipe).ok_or("bad recipe")?;
    let act = Act::parse(&c.act).ok_or("bad action")?;
    let out = fault_case::<N>(&c.prop, &recipe, &act, fault);
    println!("{} (fault reached: {})", out.summary, out.fired);
    for (p, stage) in &out.problems {
        println!("VIOLATION REPRODUCED: [{}@{}] {}", p.kind.name(), stage, p.detail);
    }
    Ok(if out.problems.is_empty() { 0 } else { 1 })
}
