//! Per-property checks built on the explorer: each selects the judgements it owns (DESIGN §4).

use crate::act::*;
use crate::exec::*;
use crate::explore::*;
use crate::ledger::{self, tag_str, Ev};
use crate::model::{self, Obs, Post};
use crate::report::*;
use crate::sut::*;

/// A single case as stored in a replay artefact.
pub struct Case {
    pub prop: String,
    pub n: usize,
    pub ctor: String,
    pub recipe: String,
    pub filling: String,
    pub act: String,
    pub fault: String,
    pub extra: String,
}

/// Straight-line re-execution of one case of a BFS-type property, without the explorer.
pub fn replay_bfs<const N: usize>(c: &Case) -> Result<i32, String> {
    let recipe = Recipe::parse(&c.ctor, &c.recipe).ok_or("bad recipe")?;
    println!("property {}  N={}  state <{}>", c.prop, N, recipe.show());
    if c.act == "ctor-only" {
        let mut rep = Report::new(&c.prop, "replay", "", "");
        ctor_checks::<N>(&c.prop, &mut rep);
        let hits: Vec<&Violation> = rep.violations.iter().filter(|v| v.replay.ctor == c.ctor).collect();
        for v in &hits {
            println!("VIOLATION REPRODUCED: {}", v.detail);
        }
        return Ok(if hits.is_empty() { 0 } else { 1 });
    }
    let act = Act::parse(&c.act).ok_or("bad action")?;
    let filling = parse_filling(&c.filling).ok_or("bad filling")?;
    let fault = parse_fault(&c.fault).ok_or("bad fault")?;
    let tr = transition::<N>(&recipe, &filling, &act, fault);
    println!("pre-state slots: [{}]  len={}", show_classes(&tr.rec.pre), tr.rec.pre.len);
    println!("action: {}   fault: {}", act, show_fault(fault));
    println!(
        "observed: {}",
        if tr.rec.panicked { format!("PANIC {}", tr.rec.panic_msg) } else { model::show_trace(&tr.rec.trace) }
    );
    println!("contents after: {}   slots [{}]", model::show_tags(&tr.rec.post_tags), show_classes(&tr.rec.post));
    println!("events: {}", tr.rec.events.iter().map(|e| e.show()).collect::<Vec<_>>().join(", "));
    println!(
        "model: {} {:?}",
        if tr.exp.panics { "PANIC".to_string() } else { model::show_trace(&tr.exp.trace) },
        tr.exp.post
    );
    println!("allocations in crate: {}   relocated: {:?}", tr.rec.allocs, tr.rec.relocated);
    let (sel, _) = select::<N>(&c.prop, &act, &tr);
    for (p, stage) in &sel {
        println!("VIOLATION REPRODUCED: [{}{}] {}", p.kind.name(), if stage.is_empty() { String::new() } else { format!("@{}", stage) }, p.detail);
    }
    Ok(if sel.is_empty() { 0 } else { 1 })
}

/// Replay of a plain transition, reporting the given judgement kinds (incl. the final drop).
pub fn replay_generic<const N: usize>(c: &Case, kinds: &[PKind]) -> Result<i32, String> {
    let recipe = Recipe::parse(&c.ctor, &c.recipe).ok_or("bad recipe")?;
    let act = Act::parse(&c.act).ok_or("bad action")?;
    let filling = parse_filling(&c.filling).ok_or("bad filling")?;
    let fault = parse_fault(&c.fault).ok_or("bad fault")?;
    let tr = transition::<N>(&recipe, &filling, &act, fault);
    println!("property {}  N={}  state <{}>  slots [{}]", c.prop, N, recipe.show(), show_classes(&tr.rec.pre));
    println!("action: {}", act);
    println!(
        "observed: {}  contents after: {}",
        if tr.rec.panicked { format!("PANIC {}", tr.rec.panic_msg) } else { model::show_trace(&tr.rec.trace) },
        model::show_tags(&tr.rec.post_tags)
    );
    println!("events: {}", tr.rec.events.iter().map(|e| e.show()).collect::<Vec<_>>().join(", "));
    println!("model: {} {:?}", if tr.exp.panics { "PANIC".to_string() } else { model::show_trace(&tr.exp.trace) }, tr.exp.post);
    let mut code = 0;
    for p in tr.problems.iter().filter(|p| kinds.contains(&p.kind)) {
        println!("VIOLATION REPRODUCED: [{}] {}", p.kind.name(), p.detail);
        code = 1;
    }
    for p in tr.final_problems.iter() {
        println!("VIOLATION REPRODUCED: [{}@final-drop] {}", p.kind.name(), p.detail);
        code = 1;
    }
    Ok(code)
}

pub struct Opts {
    pub tier: String,
    pub shard: (usize, usize),
    pub key: Option<KeyMode>,
}
impl Opts {
    pub fn thorough(&self) -> bool {
        self.tier == "thorough"
    }
    pub fn mine(&self, i: usize) -> bool {
        i % self.shard.1 == self.shard.0
    }
}

fn key_mode<const N: usize>(o: &Opts) -> KeyMode {
    if let Some(k) = o.key {
        return k;
    }
    if o.thorough() && N <= 7 {
        KeyMode::Fine
    } else {
        KeyMode::Layout
    }
}

fn is_nontrivial(tr: &Trans) -> bool {
    if tr.exp.panics {
        return true;
    }
    let pre: Vec<u32> = (0..tr.rec.pre.len).map(ledger::t_r).collect();
    match &tr.exp.post {
        Post::Exact(v) if *v == pre => {}
        _ => return true,
    }
    tr.exp.trace.iter().any(|o| match o {
        Obs::SomeV(_) | Obs::ErrV(_) | Obs::Yield(Some(_)) => true,
        Obs::Tags(v) => !v.is_empty(),
        _ => false,
    })
}

fn outcome_hash(tr: &Trans) -> u64 {
    let mut h = Fnv::default();
    use std::hash::{Hash, Hasher};
    tr.rec.act.name().hash(&mut h);
    tr.rec.trace.hash(&mut h);
    tr.rec.post_tags.hash(&mut h);
    tr.rec.panicked.hash(&mut h);
    h.finish()
}

pub fn account(rep: &mut Report, st: &State, act: &Act, tr: &Trans) {
    rep.transitions += 1;
    rep.validated += 1;
    rep.evaluations += 1;
    if is_nontrivial(tr) {
        rep.nontrivial += 1;
    }
    rep.action(act.name());
    rep.outcomes.insert(outcome_hash(tr));
    if st.depth == 0 && tr.rec.pre.cap >= 2 && !tr.rec.panicked {
        return;
    }
    rep.sample(act.name(), || {
        format!(
            "N={} state<{}> slots[{}] --{}--> observed <{}> contents {} | model <{}>{}",
            tr.rec.pre.cap,
            st.recipe.show(),
            st.classes,
            act,
            if tr.rec.panicked { format!("PANIC {}", tr.rec.panic_msg) } else { model::show_trace(&tr.rec.trace) },
            model::show_tags(&tr.rec.post_tags),
            if tr.exp.panics { "PANIC".to_string() } else { model::show_trace(&tr.exp.trace) },
            match &tr.exp.post {
                Post::Exact(v) => format!(" contents {}", model::show_tags(v)),
                Post::ByRoot(v) => format!(" contents~ {}", model::show_tags(v)),
                Post::Consumed => " (consumed)".into(),
                Post::Unspecified => " (unspecified)".into(),
            }
        )
    });
}

pub fn finish_space(rep: &mut Report, sp: &Space) {
    rep.states += sp.states.len() as u64;
    rep.fixpoint = sp.fixpoint;
    if !sp.fixpoint {
        rep.exhaustive = false;
        rep.notes.push(format!("cap hit: {}", sp.cap_hit.clone().unwrap_or_default()));
    }
    rep.diameter = sp.states.iter().map(|s| s.depth as u64).max().unwrap_or(0);
    rep.layouts = sp.layouts as u64;
    rep.expected_layouts = sp.expected_layouts as u64;
    if sp.layouts < sp.expected_layouts {
        rep.notes.push(format!(
            "VACUITY WARNING: only {} of {} (front slot, length) layouts reached",
            sp.layouts, sp.expected_layouts
        ));
    }
}

/// Documented relocation bound for `act` in a state of length `len` (None = not bounded by C20).
fn reloc_bound(act: &Act, len: usize, contiguous_before: bool) -> Option<usize> {
    use Act::*;
    match *act {
        PushBack | PushFront | TryPushBack | TryPushFront | PopBack | PopFront | Swap(..)
        | SwapRemoveBack(_) | SwapRemoveFront(_) | TruncateBack(_) | TruncateFront(_) | Clear
        | Get(_) | NthFront(_) | NthBack(_) | Front | Back | Index(_) | AsSlices | AsMutSlices => Some(2),
        WriteVia(acc, _) if acc != Acc::MakeContig => Some(2),
        Remove(i) => Some(if i < len { len - i } else { 0 }),
        Drain(rs, _, Fin::Drop) | DrainDebug(rs, _) | StepsOn(5, rs, _) => rs.resolve(len).ok().map(|(_, b)| len - b),
        MakeContiguous if contiguous_before => Some(0),
        _ => None,
    }
}

fn observers(n: usize, len: usize, full_ranges: bool) -> Vec<Act> {
    use Act::*;
    let idx = idx_domain(n);
    let mut v = vec![Front, Back, AsSlices, AsMutSlices, ToVec, CloneBuf, HashIt, EqSelfClone, EqSlice, CmpSelfClone];
    for &i in &idx {
        v.extend([Get(i), NthFront(i), NthBack(i), Index(i)]);
    }
    v.push(Iter(Script::all_front(len + 1)));
    v.push(Iter(Script::all_back(len + 1)));
    v.push(IterMut(Script::all_front(len + 1)));
    v.push(IterMut(Script::all_back(len + 1)));
    for k in 0..2 {
        v.push(DebugFmt(k));
    }
    for mm in 0..=n.min(2) {
        v.push(EqOther(mm));
        v.push(CmpOther(mm));
    }
    if full_ranges {
        for rs in all_ranges(n) {
            let l = rs.resolve(len).map(|(a, b)| b - a).unwrap_or(0);
            v.push(Range(rs, Script::all_front(l + 1)));
            v.push(RangeMut(rs, Script::all_back(l + 1)));
            v.push(Drain(rs, Script::all_front(l.min(1)), Fin::Drop));
        }
    } else {
        for a in 0..=len {
            for b in a..=len {
                v.push(Range(Rs::half_open(a, b), Script::all_front(b - a + 1)));
                v.push(RangeMut(Rs::half_open(a, b), Script::all_back(b - a + 1)));
            }
        }
    }
    v
}

fn scripts_for(len: usize) -> Vec<Script> {
    Script::all_up_to(len + 1)
}
/// for drains at the extension capacities (> 8): short consumption prefixes + the four long patterns
fn drain_scripts(n: usize, l: usize) -> Vec<Script> {
    if n <= 8 {
        return scripts_for(l);
    }
    let mut v = Script::all_up_to(l.min(4));
    v.extend([Script::all_front(l + 1), Script::all_back(l + 1), Script::alternating(l + 1, 0), Script::alternating(l + 1, 1)]);
    v
}


/// The judgements property `prop` owns about one executed, fault-free transition.
pub fn select<const N: usize>(prop: &str, act: &Act, tr: &Trans) -> (Vec<(Problem, &'static str)>, bool) {
    let mut bounded = false;
        let mut sel: Vec<(Problem, &'static str)> = vec![];
        match prop {
            "C01" => {
                if act.is_mutator() || matches!(act, Act::IntoIter(_)) {
                    for p in &tr.problems {
                        if matches!(p.kind, PKind::Trace | PKind::Contents | PKind::Views | PKind::PanicMismatch) {
                            // (a mutator that returns normally where the documentation promises a panic does not
                            // implement the documented operation either)
                            sel.push((p.clone(), ""));
                        }
                    }
                }
            }
            "C02" => {
                if matches!(act, Act::PushBack | Act::PushFront | Act::TryPushBack | Act::TryPushFront) {
                    for p in &tr.problems {
                        if matches!(p.kind, PKind::Trace | PKind::Contents | PKind::Views | PKind::PanicMismatch) {
                            sel.push((p.clone(), ""));
                        }
                    }
                    if !tr.rec.panicked {
                        // nothing may be destroyed (or cloned) inside the call
                        let ev: Vec<String> = tr.rec.events.iter().map(|e| e.show()).collect();
                        if !ev.is_empty() {
                            sel.push((
                                Problem { kind: PKind::BadEvent, detail: format!("element lifecycle events inside a push: {}", ev.join(", ")) },
                                "",
                            ));
                        }
                        // Err ⇔ was full; on Err the memory image is unchanged
                        if let Some(Obs::ErrV(_)) = tr.rec.trace.first() {
                            if !tr.rec.pre.is_full {
                                sel.push((Problem { kind: PKind::Trace, detail: "Err although is_full() was false".into() }, ""));
                            }
                            // ("leave the buffer unchanged" is judged on the observable contents — the Contents
                            // judgement above — not on the memory image, which an implementation is free to touch)
                        } else if let Some(Obs::OkV) = tr.rec.trace.first() {
                            if tr.rec.pre.is_full {
                                sel.push((Problem { kind: PKind::Trace, detail: "Ok(()) although is_full() was true: the element was lost".into() }, ""));
                            }
                        }
                        // the pushed element (identity!) is live and in exactly one place
                        for p in balance(&tr.rec) {
                            sel.push((p, ""));
                        }
                    }
                }
            }
            "C03" => {
                // (a documented panic that really happens ends the panic-free history: nothing to judge)
                if !(tr.exp.panics && tr.rec.panicked) {
                    for p in &tr.problems {
                        if matches!(p.kind, PKind::BadEvent | PKind::Leak | PKind::DeadReachable | PKind::Duplicate) {
                            sel.push((p.clone(), ""));
                        }
                    }
                    if tr.problems.iter().all(|p| p.kind != PKind::PanicMismatch) {
                        for p in &tr.final_problems {
                            if matches!(p.kind, PKind::BadEvent | PKind::Leak) {
                                sel.push((p.clone(), "final-drop"));
                            }
                        }
                    }
                }
            }
            "C11" => {
                for p in &tr.problems {
                    if matches!(p.kind, PKind::PanicMismatch | PKind::ChangedOnPanic) {
                        sel.push((p.clone(), ""));
                    }
                }
                for p in &tr.final_problems {
                    if p.kind == PKind::PanicMismatch {
                        sel.push((p.clone(), "final-drop"));
                    }
                }
            }
            "C17" => {
                if !tr.rec.panicked && tr.rec.allocs > 0 {
                    sel.push((
                        Problem { kind: PKind::Alloc, detail: format!("{} heap allocation event(s) inside the crate", tr.rec.allocs) },
                        "",
                    ));
                }
            }
            "C20" => {
                if !tr.rec.panicked && tr.rec.post.ok && !tr.rec.consumed {
                    let contig = tr.rec.pre.s1.is_empty();
                    if let Some(b) = reloc_bound(act, tr.rec.pre.len, contig) {
                        bounded = true;
                        if tr.rec.relocated.len() > b {
                            let mv: Vec<String> = tr
                                .rec
                                .relocated
                                .iter()
                                .map(|(t, a, b)| format!("{}:{}->{}", tag_str(*t), a, b))
                                .collect();
                            sel.push((
                                Problem {
                                    kind: PKind::Reloc,
                                    detail: format!(
                                        "{} surviving elements relocated (bound {}): {}",
                                        tr.rec.relocated.len(),
                                        b,
                                        mv.join(" ")
                                    ),
                                },
                                "",
                            ));
                        }
                    }
                }
            }
            _ => unreachable!(),
        }
        (sel, bounded)
}

/// The BFS-based checks: C01 C02 C03 C11 C17 C20.
pub fn bfs_check<const N: usize>(prop: &str, o: &Opts, rep: &mut Report) {
    let mode = key_mode::<N>(o);
    rep.notes.push(format!("N={} key={:?} {}", N, mode, calib::<N>().note));
    let limits = Limits::default();
    let prop_s = prop.to_string();
    let judge_one = |rep: &mut Report, st: &State, act: &Act, tr: &Trans| {
        account(rep, st, act, tr);
        let (sel, bounded) = select::<N>(&prop_s, act, tr);
        if bounded {
            rep.count("bounded_transitions", 1);
        }
        for (p, stage) in sel {
            record(rep, N, &st.recipe, &[], act, None, &p, stage);
        }
    };
    let sp = {
        // the BFS phase is identical in every shard: it is judged and counted once, by shard 0
        let mut cb = |_i: usize, st: &State, act: &Act, tr: &Trans| {
            if o.shard.0 == 0 {
                judge_one(rep, st, act, tr)
            }
        };
        explore::<N>(mode, &limits, &grow_alphabet, &mut cb)
    };
    // one-step probes from every state
    for (i, st) in sp.states.iter().enumerate() {
        if !o.mine(i) {
            continue;
        }
        let mut probes: Vec<Act> = vec![];
        match prop {
            "C03" => {
                for s in scripts_for(st.len) {
                    probes.push(Act::IntoIter(s));
                }
                for s in Script::all_up_to(st.len.min(4)) {
                    probes.push(Act::IntoIterClone(s));
                }
                for a in 0..=st.len {
                    for b in a..=st.len {
                        for s in drain_scripts(N, b - a) {
                            probes.push(Act::Drain(Rs::half_open(a, b), s, Fin::Drop));
                        }
                    }
                }
                probes.extend([Act::ToVec, Act::CloneBuf, Act::EqSelfClone, Act::EqSlice]);
                // owning iterators and drains driven through nth / nth_back as well: skipped elements
                // must be destroyed exactly once, too
                probes.extend(steps_probes(N, st.len, &[4, 5], 3));
                for a in 0..=st.len.min(2) {
                    for mm in 0..=N.min(6) {
                        for b in 0..=mm.min(2) {
                            probes.push(Act::IntoIterCloneFrom(a, mm, b));
                        }
                    }
                }
                // ranges the documentation rejects: if one is accepted after all, ownership must still hold
                for rs in all_ranges(N) {
                    if rs.resolve(st.len).is_err() {
                        probes.push(Act::Drain(rs, Script::all_front(1), Fin::Drop));
                    }
                }
            }
            "C01" => {
                probes.push(Act::IntoIter(Script::all_front(st.len + 1)));
                probes.push(Act::IntoIter(Script::all_back(st.len + 1)));
                // "any argument": drains over ranges the documentation rejects (inverted, beyond the length, every
                // bound kind) must not go through and rearrange the contents
                for rs in all_ranges(N) {
                    if rs.resolve(st.len).is_err() {
                        probes.push(Act::Drain(rs, Script::empty(), Fin::Drop));
                        probes.push(Act::Drain(rs, Script::all_front(1), Fin::Drop));
                    }
                }
            }
            "C11" => {
                probes.extend(observers(N, st.len, true));
                probes.push(Act::IntoIter(Script::all_front(st.len + 1)));
                for k in 0..3 {
                    probes.push(Act::IterDebug(k, Script::all_front(st.len.min(1))));
                    probes.push(Act::IterDebug(k, Script::all_back(st.len + 1)));
                }
                for rs in all_ranges(N) {
                    probes.push(Act::DrainDebug(rs, Script::all_back(1)));
                    probes.push(Act::DrainDebug(rs, Script::empty()));
                }
                probes.extend(steps_probes(N, st.len, &[0, 1, 2, 3, 4, 5], 1));
                probes.push(Act::IntoIterCloneFrom(0, N.min(2), 1));
                probes.push(Act::DropBuf);
            }
            "C17" | "C20" => {
                probes.extend(observers(N, st.len, false));
                probes.push(Act::IntoIter(Script::all_front(st.len + 1)));
                // every consumption script: what Drain::drop moves must not depend on how it was consumed
                for a in 0..=st.len {
                    for b in a..=st.len {
                        for s in drain_scripts(N, b - a) {
                            if s.len > 0 {
                                probes.push(Act::Drain(Rs::half_open(a, b), s, Fin::Drop));
                            }
                        }
                    }
                }
            }
            _ => {}
        }
        for act in probes {
            let tr = transition::<N>(&st.recipe, &[], &act, None);
            judge_one(rep, st, &act, &tr);
        }
    }
    finish_space(rep, &sp);
    // constructors with every source length (C03 / C11 / C17: they are operations too)
    if matches!(prop, "C03" | "C11" | "C17" | "C01") && o.shard.0 == 0 {
        ctor_checks::<N>(prop, rep);
    }
    if matches!(prop, "C01" | "C02" | "C11") && o.shard.0 == 0 && N <= 16 {
        crate::io::u8_twin::<N>(prop, rep);
    }
    if prop == "C03" && o.shard.0 == 0 {
        crate::zst::zst_twin::<N>(prop, rep);
    }
    if prop == "C17" && o.shard.0 == 0 && N <= 16 {
        crate::io::c17_io::<N>(rep);
    }
    if (prop == "C11" || prop == "C02") && N == 0 && o.shard.0 == 0 {
        // the boundary of the documented panics at len == usize::MAX
        for p in crate::c19::huge_full_probes() {
            rep.violation(Violation {
                sig: format!("cap=usize::MAX:full:{}", p.split(':').next().unwrap_or("").replace(' ', "_")),
                detail: format!("completely full CircularBuffer<usize::MAX, ()>: {}", p),
                replay: ReplayCase { n: 0, ctor: "new".into(), recipe: "0,0".into(), filling: "none".into(), act: "huge-full".into(), fault: "none".into(), extra: String::new() },
            });
        }
        rep.transitions += 30;
        rep.validated += 30;
        rep.count("full_usize_max_probes", 30);
    }
}

/// C17 / C20 at a capacity far above the core range (scratch-size and fill-ratio thresholds such as "more than 16
/// elements wrapped", "at most a quarter full"): EVERY (front slot, length) layout, reached by a direct history
/// instead of a BFS, x a boundary-value alphabet (each operation with arguments at 0, 1, the middle, the wrap point,
/// the free space, the ends and beyond).  Not a fixpoint over histories: one canonical history per layout.
pub fn large_probe<const N: usize>(prop: &str, o: &Opts, rep: &mut Report) {
    use Act::*;
    rep.notes.push(format!("N={}: extension capacity, {} x boundary-value alphabet, one history per layout {}", N, if N > 100 { "a boundary grid of layouts" } else { "every layout" }, calib::<N>().note));
    let prop_s = prop.to_string();
    let mut layouts = std::collections::BTreeSet::new();
    let mut idx = 0usize;
    // beyond 100 slots: a boundary grid of layouts instead of all of them (front slot and length at 0, 1, 2, the
    // middle, around 127/128/129 and 255/256/257 where they exist, and right below N)
    let grid: Vec<usize> = {
        let mut g = vec![0, 1, 2, N / 2, 127, 128, 129, 255, 256, 257, N.saturating_sub(2), N.saturating_sub(1), N];
        g.retain(|&x| x <= N);
        g.sort();
        g.dedup();
        g
    };
    for s in 0..N {
        for l in 0..=N {
            if s > 0 && l == 0 {
                continue; // (emptying the buffer resets the front position)
            }
            if N > 100 && !(grid.contains(&s) && grid.contains(&l)) {
                continue;
            }
            idx += 1;
            if !o.mine(idx) {
                continue;
            }
            // front at slot s with l elements: leave one element at slot s-1, append, pop it
            let mut acts = vec![];
            if s > 0 {
                acts.push(Extend(s));
                acts.push(TruncateFront(1));
                acts.push(Extend(l));
                if l < N {
                    acts.push(PopFront);
                }
            } else if l > 0 {
                acts.push(Extend(l));
            }
            let recipe = Recipe { ctor: Ctor::New, acts };
            let first = N - s; // elements in the first physical piece when wrapped
            let free = N - l;
            let mut pts: Vec<usize> = vec![0, 1, 2, l / 2, l.saturating_sub(1), l, first.min(l), first.min(l).saturating_sub(1), first.min(l) + 1];
            if N > 100 {
                pts.extend([127, 128, 129, 255, 256, 257]);
            }
            pts.retain(|&x| x <= l);
            pts.sort();
            pts.dedup();
            let mut probes: Vec<Act> = vec![PushBack, PushFront, TryPushBack, TryPushFront, PopBack, PopFront, Clear, MakeContiguous, Fill, FillWith, FillSpare, FillSpareWith];
            for &i in &pts {
                probes.extend([Remove(i), SwapRemoveBack(i), SwapRemoveFront(i), TruncateBack(i), TruncateFront(i), Get(i), NthFront(i), NthBack(i)]);
            }
            probes.extend([Swap(0, l.saturating_sub(1)), Swap(l / 2, 0), Swap(first.min(l).saturating_sub(1), first.min(l))]);
            let mut sizes: Vec<usize> = vec![0, 1, 2, 15, 16, 17, 32, 33, free.saturating_sub(1), free, free + 1, first, N - 1, N, N + 1, 2 * N + 1];
            if N > 100 {
                sizes.extend([127, 128, 129, 255, 256, 257]);
            }
            sizes.sort();
            sizes.dedup();
            for &m in &sizes {
                probes.extend([Extend(m), ExtendFromSlice(m), ExtendHint(m, 2)]);
            }
            for &a in &pts {
                for &b in &pts {
                    if a <= b {
                        let w = b - a;
                        probes.push(Drain(Rs::half_open(a, b), Script::empty(), Fin::Drop));
                        if w > 0 {
                            probes.push(Drain(Rs::half_open(a, b), Script::all_front(1), Fin::Drop));
                            probes.push(Drain(Rs::half_open(a, b), Script::all_back(1), Fin::Drop));
                            probes.push(Drain(Rs::half_open(a, b), Script::all_front(w + 1), Fin::Drop));
                            probes.push(Range(Rs::half_open(a, b), Script::all_front(w + 1)));
                            probes.push(RangeMut(Rs::half_open(a, b), Script::all_back(w + 1)));
                        }
                    }
                }
            }
            probes.extend([Front, Back, AsSlices, AsMutSlices, CloneBuf, HashIt, EqSelfClone, EqSlice, CmpSelfClone, DebugFmt(0)]);
            probes.extend([Iter(Script::all_front(l + 1)), Iter(Script::all_back(l + 1)), IterMut(Script::alternating(l + 1, 0)), IntoIter(Script::all_front(l + 1)), IntoIter(Script::alternating(l + 1, 1))]);
            let mut st: Option<State> = None;
            for act in probes {
                let tr = transition::<N>(&recipe, &[], &act, None);
                if st.is_none() {
                    let front = tr.rec.pre.s0.first().copied().unwrap_or(usize::MAX);
                    layouts.insert((front, tr.rec.pre.len));
                    st = Some(State { recipe: recipe.clone(), key: vec![], depth: recipe.acts.len(), len: l, layout: (front, tr.rec.pre.len), classes: String::new() });
                }
                let st = st.as_ref().unwrap();
                account(rep, st, &act, &tr);
                let (sel, bounded) = select::<N>(&prop_s, &act, &tr);
                if bounded {
                    rep.count("bounded_transitions", 1);
                }
                for (p, stage) in sel {
                    record(rep, N, &st.recipe, &[], &act, None, &p, stage);
                }
            }
            rep.states += 1;
        }
    }
    rep.fixpoint = false;
    rep.layouts += layouts.len() as u64;
    rep.count("extension_layouts_this_shard", layouts.len() as u64);
}

/// Every constructor, every source length 0..=2N+1: contents, ownership, panics, allocations.
pub fn ctor_checks<const N: usize>(prop: &str, rep: &mut Report) {
    let mut ctors = vec![Ctor::New, Ctor::Default];
    if cfg!(feature = "alloc") {
        ctors.push(Ctor::Boxed);
    }
    for m in 0..=(2 * N + 1).min(MAX_FROM_ARRAY) {
        ctors.push(Ctor::FromArray(m));
        ctors.push(Ctor::FromIter(m));
        for h in 0..8 {
            ctors.push(Ctor::FromIterHint(m, h));
        }
    }
    for c in ctors {
        ledger::reset();
        crate::set_case(&format!("n={}|ctor={}|recipe=|filling=none|act=ctor-only|fault=none|extra=", N, c));
        let a0 = crate::alloc::count();
        let r = std::panic::catch_unwind(|| Sut::<N>::construct(c));
        let _allocs = crate::alloc::count() - a0;
        rep.transitions += 1;
        rep.validated += 1;
        rep.evaluations += 1;
        rep.nontrivial += 1;
        rep.action("constructor");
        let recipe = Recipe { ctor: c, acts: vec![] };
        let mut problems: Vec<Problem> = vec![];
        match r {
            Err(p) => problems.push(Problem {
                kind: PKind::PanicMismatch,
                detail: format!("constructor panicked: {}", crate::panic_text(&p)),
            }),
            Ok(sut) => {
                let snap = sut.snap();
                let m = match c {
                    Ctor::FromArray(m) | Ctor::FromIter(m) | Ctor::FromIterHint(m, _) => m,
                    _ => 0,
                };
                let want: Vec<u32> = (m.saturating_sub(N)..m).map(ledger::t_a).collect();
                let got: Vec<u32> = snap.iter.iter().map(|id| ledger::tag_of(*id)).collect();
                if let Err(e) = snap.views_agree() {
                    problems.push(Problem { kind: PKind::Views, detail: e });
                } else if got != want && !matches!(c, Ctor::FromIterHint(_, h) if h >= 5) {
                    // (with an incorrect size_hint the contents are not prescribed; presentation and ownership are)
                    problems.push(Problem {
                        kind: PKind::Contents,
                        detail: format!("contents {} expected {}", model::show_tags(&got), model::show_tags(&want)),
                    });
                }
                let ev = ledger::take_events();
                let bad: Vec<String> = ev.iter().filter(|e| e.is_bad()).map(|e| e.show()).collect();
                if !bad.is_empty() {
                    problems.push(Problem { kind: PKind::BadEvent, detail: bad.join(", ") });
                }
                let mut live = ledger::live_ids();
                let mut have = snap.iter.clone();
                live.sort();
                have.sort();
                // a position of the new buffer that presents something which is not a live element: the
                // constructor counted a slot it never wrote (unoccupied storage observed, C04) or kept a destroyed one
                if !cfg!(feature = "plain") {
                    if let Some(id) = have.iter().find(|id| !live.contains(id)) {
                        problems.push(Problem {
                            kind: PKind::DeadReachable,
                            detail: format!("the constructed buffer presents a slot (reads as id {}, {}) that holds no live element; contents read {}", id, ledger::tag_str(ledger::tag_of(*id)), model::show_tags(&got)),
                        });
                    }
                }
                if have.windows(2).any(|w| w[0] == w[1]) {
                    problems.push(Problem { kind: PKind::Duplicate, detail: format!("the constructed buffer presents one element twice: {}", model::show_tags(&got)) });
                }
                if live != have && !cfg!(feature = "plain") {
                    problems.push(Problem {
                        kind: PKind::Leak,
                        detail: format!("after construction {} live elements but {} in the buffer", live.len(), have.len()),
                    });
                }
                rep.outcomes.insert(fnv_of(&(c.to_string(), got)));
                problems.extend(final_drop(sut, Hold::default()));
            }
        }
        for p in problems {
            let mine = match prop {
                "C01" => matches!(p.kind, PKind::Contents | PKind::Views | PKind::PanicMismatch),
                "C12" => matches!(p.kind, PKind::Contents | PKind::Views | PKind::PanicMismatch | PKind::BadEvent | PKind::Leak),
                "C03" => matches!(p.kind, PKind::BadEvent | PKind::Leak | PKind::DeadReachable | PKind::Duplicate),
                "C04" => matches!(p.kind, PKind::BadEvent | PKind::DeadReachable | PKind::Duplicate),
                "C11" => matches!(p.kind, PKind::PanicMismatch),
                _ => false,
            };
            if mine {
                let dummy = Act::Clear;
                let mut pp = p.clone();
                pp.detail = format!("constructor {}: {}", c, p.detail);
                record_ctor(rep, N, &recipe, &pp, &dummy);
            }
        }
    }
}

fn record_ctor(rep: &mut Report, n: usize, recipe: &Recipe, p: &Problem, _dummy: &Act) {
    rep.violation(Violation {
        sig: format!("N={}:constructor-{}:{}", n, recipe.ctor.to_string().split('(').next().unwrap_or(""), p.kind.name()),
        detail: format!("N={} {}", n, p.detail),
        replay: ReplayCase {
            n,
            ctor: recipe.ctor.to_string(),
            recipe: String::new(),
            filling: "none".into(),
            act: "ctor-only".into(),
            fault: "none".into(),
            extra: String::new(),
        },
    });
}

pub fn _unused(_: Ev) {}
