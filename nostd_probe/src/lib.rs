#![no_std]

use circular_buffer::CircularBuffer;

#[panic_handler]
fn panic(_: &core::panic::PanicInfo) -> ! {
    loop {}
}

/// Touches a representative part of the API so that the code is really instantiated.
#[no_mangle]
pub extern "C" fn cb_probe(x: u32) -> u32 {
    let mut b = CircularBuffer::<4, u32>::new();
    b.push_back(x);
    b.push_front(x + 1);
    b.extend_from_slice(&[1, 2, 3]);
    let _ = b.try_push_back(7);
    b.swap(0, 1);
    let mut acc = b.iter().fold(0u32, |a, v| a.wrapping_add(*v));
    acc = acc.wrapping_add(b.drain(1..).count() as u32);
    b.fill(9);
    b.make_contiguous();
    acc = acc.wrapping_add(b.remove(0).unwrap_or(0));
    let c = b.clone();
    acc.wrapping_add((c == b) as u32).wrapping_add(b.into_iter().rev().count() as u32)
}
